#!/bin/sh
# usage: run.sh <property> <quick|thorough>
# Runs the hvc check of one property against the current /repo working tree.
export GOFLAGS=-mod=mod GOPROXY=off GOSUMDB=off GOTOOLCHAIN=local
cd /verif || exit 2
if [ ! -x /verif/bin/hvc ] || [ -n "$(find /verif/hvc -name '*.go' -newer /verif/bin/hvc 2>/dev/null | head -1)" ]; then
  (cd /verif/hvc && go build -o /verif/bin/hvc .) || exit 2
fi
exec /verif/bin/hvc check -property "$1" -tier "${2:-quick}"
