package main

import (
	"fmt"
	"go/ast"
	"go/token"
	"go/types"
	"os"
	"sort"
	"strings"
	"sync"
)

// State is one symbolic program state.
type State struct {
	vars     map[*types.Var]*Term
	heaps    map[string]*Term
	epoch    int
	alloc    *Term
	pc       []*Term
	lastCall *State // snapshot taken before the most recent call by contract (units that use atcall())
	closures map[*types.Var]*ast.FuncLit
	locks    map[string]*Term
	ghost    map[string]*Term
	defers   []deferred
}

func (s *State) clone() *State {
	n := &State{vars: make(map[*types.Var]*Term, len(s.vars)), heaps: make(map[string]*Term, len(s.heaps)), epoch: s.epoch, alloc: s.alloc, closures: map[*types.Var]*ast.FuncLit{}, lastCall: s.lastCall}
	for k, v := range s.vars {
		n.vars[k] = v
	}
	for k, v := range s.heaps {
		n.heaps[k] = v
	}
	for k, v := range s.closures {
		n.closures[k] = v
	}
	if s.ghost != nil {
		n.ghost = make(map[string]*Term, len(s.ghost))
		for k, v := range s.ghost {
			n.ghost[k] = v
		}
	}
	n.pc = append([]*Term(nil), s.pc...)
	n.defers = append([]deferred(nil), s.defers...)
	return n
}

func (s *State) assume(t *Term) {
	if t.isTrue() {
		return
	}
	s.pc = append(s.pc, t)
}

type Obligation struct {
	Name   string
	Kind   string
	Func   string
	Pos    string
	Text   string
	PC     []*Term
	Goal   *Term
	Axioms []*Term
	// results
	Status      string // discharged | trivial | failed
	Solver      string
	Time        float64
	Answer      string
	Model       string
	Query       string
	ex          *Exec
	Inputs      []inputSym
	Expect      string // "unsat" normally; "sat" for vacuity checks
	Vacuity     bool
	smallModel  bool
	allTimeouts bool
	Retried     bool // discharged only by the calm retry after timeouts
	CaseSplit   int  // discharged as a complete case analysis over this many cases (0: single query)
	Cover       bool // reachability check: expects sat, only a refutation (unsat) counts
}

type inputSym struct {
	Name string
	Go   string
	Type string
	Term *Term
}

type retOutcome struct {
	st   *State
	vals []*Term
}

type deferred struct {
	call  *ast.CallExpr
	frame *Frame
	cond  *Term // nil: registered on every path; otherwise the condition under which it was registered
}

type Frame struct {
	fi       *FuncInfo
	info     *types.Info
	entry    *State
	rets     []retOutcome
	isTop    bool
	defers   []deferred
	results  []*types.Var
	sig      *types.Signature
	allocIn  *Term
	inlineOf string
}

type loopCtx struct {
	label     string
	breaks    []*State
	continues []*State
	isSwitch  bool // a switch/select only catches unlabeled break
}

type modLoc struct {
	heap string
	ref  *Term
	elem Sort // element sort of the heap when known
}
type modElems struct {
	heaps []string
	sl    *Term
}

type funSig struct {
	args []Sort
	ret  Sort
}

// Exec verifies one function (the "unit").
type Exec struct {
	used        map[string]bool // callee contracts applied at call sites of this unit
	p           *Prog
	top         *FuncInfo
	frames      []*Frame
	loops       []*loopCtx
	obls        []*Obligation
	axioms      []*Term
	axiomSet    map[*Term]bool
	nfresh      int
	consts      map[string]Sort
	funs        map[string]funSig
	strLits     map[string]*Term
	strOrder    []string
	spec        int
	notes       []string
	abstract    map[string]int
	links       map[string]*heapLink
	boxed       map[*types.Var]bool
	boxDone     map[*ast.BlockStmt]bool
	names       map[string]int
	alloc0      *Term
	hasMod      bool
	modHeaps    map[string]bool
	boundVars   map[*types.Var]*Term
	quantLinked map[string]bool
	zeroLinksQ  map[string]func() []*Term
	modLocs     []modLoc
	modEl       []modElems
	specRec     map[*types.Func]int
	inlining    map[*types.Func]int
	inputs      []inputSym
	fatal       string
	curStmt     ast.Node
	ghostDec    []*Term
	topReturns  int
	nameSuffix  string
	assumed     []string
	anchorCache map[*Term][]*Term
	anchorMu    sync.Mutex
	contFor     map[ast.Stmt][]ast.Stmt
	loopEntry   []*State
	rangeIdx    []*Term
	visStack    []*Term // per enclosing map-range loop: the ghost set of keys already produced
	epochMerges map[int]*epochMerge
	iterStart   []*State    // per enclosing for loop: the state at the start of the current iteration
	dynLocs     []modLoc    // places assumed unchanged by calls through function values (dyncall-preserves)
	stableMaps  []stableMap // maps ranged over by enclosing loops that reason with visited(): they must not be written
	framed      map[*Term]bool
	fnSyms      map[string]*types.Func
	replayText  *Term
	replayHeap  *Term
	replayTerms []*Term
	mathSites   int
	unfolded    map[*Term]bool
	zeroLinks   map[string]func(r *Term) *Term
	extUsed     map[string]int
}

type heapLink struct {
	pred *Term
	keep func(r *Term) *Term
}

func newExec(p *Prog, fi *FuncInfo) *Exec {
	return &Exec{p: p, top: fi, axiomSet: map[*Term]bool{}, consts: map[string]Sort{}, funs: map[string]funSig{}, strLits: map[string]*Term{}, abstract: map[string]int{}, links: map[string]*heapLink{}, boxed: map[*types.Var]bool{}, boxDone: map[*ast.BlockStmt]bool{}, names: map[string]int{}, specRec: map[*types.Func]int{}, inlining: map[*types.Func]int{}, fnSyms: map[string]*types.Func{}, framed: map[*Term]bool{}, contFor: map[ast.Stmt][]ast.Stmt{}, anchorCache: map[*Term][]*Term{}, boundVars: map[*types.Var]*Term{}, quantLinked: map[string]bool{}, zeroLinksQ: map[string]func() []*Term{}}
}

type unsupportedErr struct{ msg string }

func (x *Exec) unsupported(n ast.Node, format string, args ...any) {
	msg := fmt.Sprintf(format, args...)
	if n != nil {
		msg = x.p.relPos(n) + ": " + msg
	}
	panic(unsupportedErr{msg})
}

func (x *Exec) cur() *Frame       { return x.frames[len(x.frames)-1] }
func (x *Exec) info() *types.Info { return x.cur().info }

func (x *Exec) fresh(prefix string, sort Sort) *Term {
	x.nfresh++
	name := fmt.Sprintf("%s!%d", sanitize(prefix), x.nfresh)
	x.consts[name] = sort
	return Sym(name, sort)
}

func (x *Exec) declFun(name string, args []Sort, ret Sort) {
	if _, ok := x.funs[name]; !ok {
		x.funs[name] = funSig{args, ret}
	}
}

func (x *Exec) app(name string, ret Sort, args ...*Term) *Term {
	var as []Sort
	for _, a := range args {
		as = append(as, a.Sort)
	}
	x.declFun(name, as, ret)
	return App(name, ret, args...)
}

func (x *Exec) axiom(t *Term) {
	if t.isTrue() {
		return
	}
	if t.Bound {
		// a fact about a term built under a quantifier: state it for all values
		// of the bound variables (a free bound variable would be an undeclared
		// symbol in the query)
		x.axiomIfClosed(t)
		return
	}
	if x.axiomSet[t] {
		return
	}
	x.axiomSet[t] = true
	x.axioms = append(x.axioms, t)
}

func (x *Exec) note(format string, args ...any) {
	x.notes = append(x.notes, fmt.Sprintf(format, args...))
}

func (x *Exec) abstracted(what string) { x.abstract[what]++ }

// ---------------------------------------------------------------- heaps

func (x *Exec) heap(st *State, name string, elem Sort) *Term {
	if h, ok := st.heaps[name]; ok {
		return h
	}
	// do not store into st.heaps: absence means "version of this epoch"
	return x.heapOfEpoch(st.epoch, name, elem)
}

// epochMerge: an epoch created by merging states of different epochs. A heap
// that none of the merged states had touched explicitly is, in the merged
// state, the guarded choice between the parents' versions (built on demand).
type epochMerge struct {
	guards  []*Term
	parents []epochParent
	cache   map[string]*Term
}

type epochParent struct {
	epoch int
	heaps map[string]*Term
}

func (x *Exec) heapOfEpoch(ep int, name string, elem Sort) *Term {
	if strings.HasPrefix(name, "ghost$") {
		ep = 0
	}
	if em := x.epochMerges[ep]; em != nil {
		if h, ok := em.cache[name]; ok {
			return h
		}
		get := func(p epochParent) *Term {
			if h, ok := p.heaps[name]; ok {
				return h
			}
			return x.heapOfEpoch(p.epoch, name, elem)
		}
		r := get(em.parents[len(em.parents)-1])
		for i := len(em.parents) - 2; i >= 0; i-- {
			v := get(em.parents[i])
			if v != r {
				r = Ite(em.guards[i], v, r)
			}
		}
		em.cache[name] = r
		return r
	}
	sym := fmt.Sprintf("%s@%d", name, ep)
	srt := ArraySort(elem)
	x.consts[sym] = srt
	return Sym(sym, srt)
}

func (x *Exec) setHeap(st *State, name string, h *Term) { st.heaps[name] = h }

// instantiate frame links for a read of arr at r
func (x *Exec) instLinks(arr, r *Term, depth int) {
	if depth > 40 {
		return
	}
	switch {
	case arr.Op == "store" && len(arr.Args) == 3:
		x.instLinks(arr.Args[0], r, depth+1)
	case arr.Op == "ite" && len(arr.Args) == 3:
		x.instLinks(arr.Args[1], r, depth+1)
		x.instLinks(arr.Args[2], r, depth+1)
	case arr.IsLeaf():
		if r.Bound {
			// a read under a quantifier: state the heap's frame facts once, universally
			if !x.quantLinked[arr.Op] {
				x.quantLinked[arr.Op] = true
				x.nfresh++
				q := BoundVar(fmt.Sprintf("r!q%d", x.nfresh), SInt)
				if zq, ok := x.zeroLinksQ[arr.Op]; ok {
					for _, a := range zq() {
						x.axiom(a)
					}
				} else if z, ok := x.zeroLinks[arr.Op]; ok {
					x.axiom(ForallPat([]*Term{q}, z(q), Select(arr, q)))
				}
				if l, ok := x.links[arr.Op]; ok {
					x.axiom(ForallPat([]*Term{q}, Implies(l.keep(q), Eq(Select(arr, q), Select(l.pred, q))), Select(arr, q)))
					x.instLinks(l.pred, r, depth+1)
				}
			}
			return
		}
		if z, ok := x.zeroLinks[arr.Op]; ok {
			x.axiom(z(r))
		}
		if l, ok := x.links[arr.Op]; ok {
			x.axiom(Implies(l.keep(r), Eq(Select(arr, r), Select(l.pred, r))))
			x.instLinks(l.pred, r, depth+1)
		}
	}
}

func (x *Exec) hread(st *State, name string, elem Sort, r *Term) *Term {
	h := x.heap(st, name, elem)
	x.instLinks(h, r, 0)
	return Select(h, r)
}

// hwrite stores v at r in heap name, with a frame obligation when the unit
// declares a modifies clause.
func (x *Exec) hwrite(st *State, name string, elem Sort, r, v *Term, at ast.Node) {
	if x.spec == 0 {
		x.frameCheck(st, name, r, at)
	}
	h := x.heap(st, name, elem)
	x.setHeap(st, name, Store(h, r, v))
}

func (x *Exec) frameCheck(st *State, name string, r *Term, at ast.Node) {
	if !x.hasMod {
		return
	}
	if x.modHeaps[name] {
		return
	}
	alts := []*Term{Ge(r, x.alloc0)}
	for _, m := range x.modLocs {
		if m.heap == name {
			alts = append(alts, Eq(r, m.ref))
		}
	}
	for _, m := range x.modEl {
		for _, h := range m.heaps {
			if h == name {
				alts = append(alts, And(Le(slBase(m.sl), r), Lt(r, Add(slBase(m.sl), slCap(m.sl)))))
			}
		}
	}
	x.oblige(st, "frame", "write "+name, Or(alts...), at)
}

// newHeapVersion replaces heap name by a fresh array which agrees with the old
// one wherever keep(r) holds.
func (x *Exec) linkFresh(st *State, name string, elem Sort, keep func(r *Term) *Term) {
	old := x.heap(st, name, elem)
	nh := x.fresh(name+"'", ArraySort(elem))
	x.links[nh.Op] = &heapLink{pred: old, keep: keep}
	x.setHeap(st, name, nh)
}

func (x *Exec) havocHeap(st *State, name string, elem Sort) {
	nh := x.fresh(name+"'", ArraySort(elem))
	x.setHeap(st, name, nh)
}

func (x *Exec) havocAllHeaps(st *State) {
	st.epoch = x.newEpoch()
	keep := map[string]*Term{}
	for k, v := range st.heaps {
		if strings.HasPrefix(k, "ghost$") {
			keep[k] = v
		}
	}
	st.heaps = keep
	// the allocator may have advanced
	na := x.fresh("alloc", SInt)
	st.assume(Ge(na, st.alloc))
	st.alloc = na
}

type stableMap struct {
	dn  string
	ref *Term
}

var epochCounter int

func (x *Exec) newEpoch() int { epochCounter++; return epochCounter }

// allocation of n consecutive references
func (x *Exec) allocRefs(st *State, n *Term) *Term {
	base := st.alloc
	na := x.fresh("alloc", SInt)
	st.assume(Eq(na, Add(base, n)))
	st.alloc = na
	return base
}

// ---------------------------------------------------------------- heap names

func heapOfType(t types.Type) string { return "H$" + sanitize(typeStr(t)) }

func fieldHeap(structT types.Type, field string) string {
	return "H$" + sanitize(typeStr(structT)) + "$" + field
}

func globalHeap(v *types.Var) string {
	return "G$" + sanitize(shortPkg(v.Pkg().Path())+"."+v.Name())
}

// heapsOfType: the heaps holding a value of type t at a reference
func heapsOfType(t types.Type) []string {
	if st, ok := t.Underlying().(*types.Struct); ok {
		var out []string
		for i := 0; i < st.NumFields(); i++ {
			out = append(out, fieldHeap(t, st.Field(i).Name()))
		}
		return out
	}
	return []string{heapOfType(t)}
}

// load a whole value of type t stored at reference r
func (x *Exec) loadAt(st *State, t types.Type, r *Term) *Term {
	if s, ok := t.Underlying().(*types.Struct); ok {
		ss := x.p.Reg.structOf(t)
		vals := make([]*Term, s.NumFields())
		for i := 0; i < s.NumFields(); i++ {
			vals[i] = x.hread(st, fieldHeap(t, s.Field(i).Name()), ss.Fields[i].Sort, r)
		}
		return mkStruct(ss, vals)
	}
	return x.hread(st, heapOfType(t), x.p.Reg.sortOf(t), r)
}

func (x *Exec) storeAt(st *State, t types.Type, r, v *Term, at ast.Node) {
	if s, ok := t.Underlying().(*types.Struct); ok {
		ss := x.p.Reg.structOf(t)
		for i := 0; i < s.NumFields(); i++ {
			x.hwrite(st, fieldHeap(t, s.Field(i).Name()), ss.Fields[i].Sort, r, getField(ss, v, i), at)
		}
		return
	}
	x.hwrite(st, heapOfType(t), x.p.Reg.sortOf(t), r, v, at)
}

// ---------------------------------------------------------------- type invariants

var maxSliceCap = IntLit(1 << 50)

func (x *Exec) typeInv(t types.Type, v *Term, st *State, depth int) *Term {
	if depth > 4 {
		return tTrue
	}
	switch u := t.Underlying().(type) {
	case *types.Basic:
		if lo, hi, ok := intRange(u); ok && u.Info()&types.IsInteger != 0 {
			return And(Le(BigLit(lo), v), Le(v, BigLit(hi)))
		}
		if u.Info()&types.IsString != 0 {
			return Ge(x.strLen(v), IntLit(0))
		}
	case *types.Pointer, *types.Map, *types.Chan, *types.Signature:
		return And(Le(IntLit(0), v), Lt(v, st.alloc))
	case *types.Slice:
		return And(Le(IntLit(0), slBase(v)), Le(IntLit(0), slLen(v)), Le(slLen(v), slCap(v)), Le(slCap(v), maxSliceCap),
			Le(Add(slBase(v), slCap(v)), st.alloc), Implies(Eq(slBase(v), IntLit(0)), Eq(slCap(v), IntLit(0))))
	case *types.Struct:
		ss := x.p.Reg.structOf(t)
		var cs []*Term
		for i := 0; i < u.NumFields(); i++ {
			cs = append(cs, x.typeInv(u.Field(i).Type(), getField(ss, v, i), st, depth+1))
		}
		return And(cs...)
	case *types.Array:
		if ss := x.p.Reg.structOf(t); ss != nil {
			var cs []*Term
			for i := range ss.Fields {
				cs = append(cs, x.typeInv(u.Elem(), getField(ss, v, i), st, depth+1))
			}
			return And(cs...)
		}
	case *types.Interface:
		if x.p.closedWorld(t) {
			alts := []*Term{Eq(v, ifaceNil)}
			for _, it := range x.p.implementers(t) {
				alts = append(alts, isBox(x.p.Reg.ctorFor(it), v))
			}
			return Or(alts...)
		}
	}
	return tTrue
}

// an unknown value of a Go type, with its type invariant assumed
func (x *Exec) unknown(st *State, prefix string, t types.Type) *Term {
	v := x.fresh(prefix, x.p.Reg.sortOf(t))
	st.assume(x.typeInv(t, v, st, 0))
	return v
}

func (x *Exec) zero(t types.Type) *Term {
	switch u := t.Underlying().(type) {
	case *types.Basic:
		switch {
		case u.Info()&types.IsBoolean != 0:
			return tFalse
		case u.Info()&types.IsInteger != 0:
			return IntLit(0)
		case u.Info()&types.IsFloat != 0:
			return floatLit(0)
		case u.Info()&types.IsString != 0:
			return x.strLit("")
		default:
			return IntLit(0)
		}
	case *types.Pointer, *types.Map, *types.Chan, *types.Signature:
		return IntLit(0)
	case *types.Slice:
		return nilSlice
	case *types.Interface:
		if _, tp := t.(*types.TypeParam); !tp {
			return ifaceNil
		}
	case *types.Struct:
		ss := x.p.Reg.structOf(t)
		vals := make([]*Term, u.NumFields())
		for i := 0; i < u.NumFields(); i++ {
			vals[i] = x.zero(u.Field(i).Type())
		}
		return mkStruct(ss, vals)
	case *types.Array:
		if ss := x.p.Reg.structOf(t); ss != nil {
			vals := make([]*Term, len(ss.Fields))
			for i := range vals {
				vals[i] = x.zero(u.Elem())
			}
			return mkStruct(ss, vals)
		}
	}
	srt := x.p.Reg.sortOf(t)
	name := "zero!" + string(srt)
	x.consts[name] = srt
	return Sym(name, srt)
}

// ---------------------------------------------------------------- strings

func (x *Exec) strLit(s string) *Term {
	if t, ok := x.strLits[s]; ok {
		return t
	}
	name := fmt.Sprintf("str!%d", len(x.strLits))
	x.consts[name] = SStr
	t := Sym(name, SStr)
	x.strLits[s] = t
	x.strOrder = append(x.strOrder, s)
	return t
}

func (x *Exec) strLen(s *Term) *Term {
	for lit, t := range x.strLits {
		if t == s {
			return IntLit(int64(len(lit)))
		}
	}
	return x.app("s.len", SInt, s)
}

func (x *Exec) strConcat(a, b *Term) *Term {
	empty := x.strLit("")
	if a == empty {
		return b
	}
	if b == empty {
		return a
	}
	r := x.app("s.cat", SStr, a, b)
	if !r.Bound {
		x.axiom(Eq(x.app("s.len", SInt, r), Add(x.strLen(a), x.strLen(b))))
		// neutral element
		x.axiom(Implies(Eq(a, empty), Eq(r, b)))
		x.axiom(Implies(Eq(b, empty), Eq(r, a)))
	}
	return r
}

// ---------------------------------------------------------------- obligations

func (x *Exec) nodeText(n ast.Node) string {
	if n == nil {
		return ""
	}
	start := x.p.Fset.Position(n.Pos())
	end := x.p.Fset.Position(n.End())
	src := x.p.source(start.Filename)
	if src == nil || end.Offset > len(src) || start.Offset > end.Offset {
		return ""
	}
	s := string(src[start.Offset:end.Offset])
	s = strings.Join(strings.Fields(s), " ")
	if len(s) > 60 {
		s = s[:60]
	}
	return s
}

var srcCache = map[string][]byte{}

func (p *Prog) source(file string) []byte {
	if b, ok := srcCache[file]; ok {
		return b
	}
	var b []byte
	if ov, ok := p.overlay[file]; ok {
		b = ov
	} else {
		b, _ = os.ReadFile(file)
	}
	srcCache[file] = b
	return b
}

func (x *Exec) oblName(kind, label string) string {
	prefix := ""
	if len(x.frames) > 1 {
		var parts []string
		for _, f := range x.frames[1:] {
			parts = append(parts, f.fi.Key)
		}
		prefix = strings.Join(parts, "/") + "/"
	}
	base := fmt.Sprintf("%s%s#%s:%s%s", x.top.Name(), x.nameSuffix, kind, prefix, label)
	x.names[base]++
	if n := x.names[base]; n > 1 {
		return fmt.Sprintf("%s~%d", base, n)
	}
	return base
}

// oblige records a proof obligation and then assumes the goal.
// cover records a reachability check: the path condition at this point must be
// satisfiable (an unsatisfiable one means everything proved behind this point
// is proved vacuously). kind is "cover-assert" (an alarm when refuted) or
// "cover-return" (reported in the evidence).
func (x *Exec) cover(st *State, kind, label string, at ast.Node) {
	if x.spec > 0 || st.dead() {
		return
	}
	o := &Obligation{Name: x.oblName(kind, label), Kind: kind, Func: x.top.Name(), Goal: tFalse, ex: x, Expect: "sat", Cover: true, Vacuity: true}
	if at != nil {
		o.Pos = x.p.relPos(at)
	}
	o.PC = append([]*Term(nil), st.pc...)
	o.Axioms = x.axioms[:len(x.axioms):len(x.axioms)]
	x.obls = append(x.obls, o)
}

func (x *Exec) oblige(st *State, kind, label string, goal *Term, at ast.Node) {
	if x.spec > 0 {
		return
	}
	if label == "" {
		label = x.nodeText(at)
	}
	if kind == "unreachable" && x.top.Contract != nil {
		txt := x.nodeText(at)
		for _, frag := range x.top.Contract.AssumeUnreach {
			if strings.Contains(txt, frag) {
				x.assumed = append(x.assumed, fmt.Sprintf("%s assumes the panic site %q unreachable", x.top.Name(), frag))
				st.assume(goal)
				return
			}
		}
	}
	if x.top.Flag("assume-casts") && kind == "cast" {
		// the dynamic types behind the Kind() tags of the syntax trees are not
		// modelled: type assertions are assumed to succeed (listed), every other
		// run-time check of the unit is an obligation
		msg := fmt.Sprintf("%s assumes that its type assertions succeed (cast obligations are not generated for it)", x.top.Name())
		seen := false
		for _, a := range x.assumed {
			if a == msg {
				seen = true
			}
		}
		if !seen {
			x.assumed = append(x.assumed, msg)
		}
		st.assume(goal)
		return
	}
	if x.top.Flag("assume-safety") {
		switch kind {
		case "nil", "idx", "cast", "div", "shift", "unreachable", "arith", "ext":
			// this unit's contract is about its functional clauses only: absence of
			// run-time panics is assumed here (and listed), not proved
			msg := fmt.Sprintf("%s assumes its own run-time safety (nil/index/cast/division/shift/unreachable obligations are not generated for it)", x.top.Name())
			seen := false
			for _, a := range x.assumed {
				if a == msg {
					seen = true
				}
			}
			if !seen {
				x.assumed = append(x.assumed, msg)
			}
			st.assume(goal)
			return
		}
	}
	o := &Obligation{Name: x.oblName(kind, label), Kind: kind, Func: x.top.Name(), Goal: goal, ex: x, Expect: "unsat"}
	if at != nil {
		o.Pos = x.p.relPos(at)
		o.Text = x.nodeText(at)
	}
	known := goal.isTrue()
	if !known {
		for _, f := range st.pc {
			if f == goal {
				known = true
				break
			}
		}
	}
	if known {
		o.Status = "trivial"
	} else {
		o.PC = append([]*Term(nil), st.pc...)
		o.Axioms = x.axioms[:len(x.axioms):len(x.axioms)]
	}
	x.obls = append(x.obls, o)
	st.assume(goal)
}

// ---------------------------------------------------------------- merging

// merge joins states that forked from a common ancestor with n shared pc
// entries. Returns nil when there is nothing to merge.
func (x *Exec) merge(n int, states []*State) *State {
	var live []*State
	for _, s := range states {
		if s != nil {
			live = append(live, s)
		}
	}
	if len(live) == 0 {
		return nil
	}
	if len(live) == 1 {
		return live[0]
	}
	// common prefix length (by identity)
	for _, s := range live {
		if len(s.pc) < n {
			n = len(s.pc)
		}
	}
	for i := 0; i < n; i++ {
		for _, s := range live[1:] {
			if s.pc[i] != live[0].pc[i] {
				n = i
				break
			}
		}
	}
	out := live[0].clone()
	out.pc = append([]*Term(nil), live[0].pc[:n]...)
	for _, s := range live[1:] {
		if s.lastCall != out.lastCall {
			out.lastCall = nil // no unique most recent call after the join
		}
	}
	guards := make([]*Term, len(live))
	for i, s := range live {
		guards[i] = And(s.pc[n:]...)
	}
	out.assume(Or(guards...))
	pick := func(get func(s *State) *Term) *Term {
		v0 := get(live[0])
		same := true
		for _, s := range live[1:] {
			if get(s) != v0 {
				same = false
			}
		}
		if same {
			return v0
		}
		r := get(live[len(live)-1])
		for i := len(live) - 2; i >= 0; i-- {
			r = Ite(guards[i], get(live[i]), r)
		}
		return r
	}
	// variables
	keys := map[*types.Var]bool{}
	for _, s := range live {
		for k := range s.vars {
			keys[k] = true
		}
	}
	var klist []*types.Var
	for k := range keys {
		klist = append(klist, k)
	}
	sort.Slice(klist, func(i, j int) bool {
		if klist[i].Pos() != klist[j].Pos() {
			return klist[i].Pos() < klist[j].Pos()
		}
		return klist[i].Name() < klist[j].Name()
	})
	for _, k := range klist {
		all := true
		for _, s := range live {
			if _, ok := s.vars[k]; !ok {
				all = false
			}
		}
		if !all {
			delete(out.vars, k)
			continue
		}
		out.vars[k] = pick(func(s *State) *Term { return s.vars[k] })
	}
	// heaps: epochs must agree, otherwise take a fresh epoch
	sameEpoch := true
	for _, s := range live[1:] {
		if s.epoch != live[0].epoch {
			sameEpoch = false
		}
	}
	if !sameEpoch {
		em := &epochMerge{guards: guards, cache: map[string]*Term{}}
		for _, s := range live {
			hs := make(map[string]*Term, len(s.heaps))
			for k, v := range s.heaps {
				hs[k] = v
			}
			em.parents = append(em.parents, epochParent{epoch: s.epoch, heaps: hs})
		}
		out.epoch = x.newEpoch()
		if x.epochMerges == nil {
			x.epochMerges = map[int]*epochMerge{}
		}
		x.epochMerges[out.epoch] = em
		keep := map[string]*Term{}
		for k, v := range out.heaps {
			if strings.HasPrefix(k, "ghost$") {
				keep[k] = v
			}
		}
		// ghost heaps are not epoch-versioned: merge them explicitly
		gk := map[string]bool{}
		for _, s := range live {
			for k := range s.heaps {
				if strings.HasPrefix(k, "ghost$") {
					gk[k] = true
				}
			}
		}
		out.heaps = map[string]*Term{}
		for _, k := range sortedKeys(gk) {
			var srt Sort
			for _, s := range live {
				if h, ok := s.heaps[k]; ok {
					srt = h.Sort
				}
			}
			elem := Sort(string(srt)[len("(Array Int ") : len(srt)-1])
			kk := k
			out.heaps[k] = pick(func(s *State) *Term { return x.heap(s, kk, elem) })
		}
		_ = keep
	} else {
		hk := map[string]bool{}
		for _, s := range live {
			for k := range s.heaps {
				hk[k] = true
			}
		}
		for _, k := range sortedKeys(hk) {
			var srt Sort
			for _, s := range live {
				if h, ok := s.heaps[k]; ok {
					srt = h.Sort
				}
			}
			elem := Sort(string(srt)[len("(Array Int ") : len(srt)-1])
			out.heaps[k] = pick(func(s *State) *Term { return x.heap(s, k, elem) })
		}
	}
	out.alloc = pick(func(s *State) *Term { return s.alloc })
	// deferred calls: the common prefix stays; a defer registered on only some
	// of the merging paths becomes conditional on that path's guard
	{
		np := len(live[0].defers)
		for _, s := range live[1:] {
			if len(s.defers) < np {
				np = len(s.defers)
			}
		}
		for i := 0; i < np; i++ {
			for _, s := range live[1:] {
				if s.defers[i] != live[0].defers[i] {
					np = i
					break
				}
			}
		}
		merged := append([]deferred(nil), live[0].defers[:np]...)
		for i, s := range live {
			for _, d := range s.defers[np:] {
				c := guards[i]
				if d.cond != nil {
					c = And(c, d.cond)
				}
				merged = append(merged, deferred{call: d.call, frame: d.frame, cond: c})
			}
		}
		out.defers = merged
	}
	gk := map[string]bool{}
	for _, s := range live {
		for k := range s.ghost {
			gk[k] = true
		}
	}
	for _, k := range sortedKeys(gk) {
		k := k
		if out.ghost == nil {
			out.ghost = map[string]*Term{}
		}
		out.ghost[k] = pick(func(s *State) *Term { return x.ghostGet(s, k) })
	}
	for k := range out.closures {
		for _, s := range live[1:] {
			if s.closures[k] != out.closures[k] {
				delete(out.closures, k)
			}
		}
	}
	return out
}

func sortedVarNames(m map[*types.Var]*Term) []*types.Var {
	var ks []*types.Var
	for k := range m {
		ks = append(ks, k)
	}
	sort.Slice(ks, func(i, j int) bool { return ks[i].Pos() < ks[j].Pos() })
	return ks
}

var _ = token.NoPos

// ghost counters: integer specification state updated by ghostset clauses
func (x *Exec) ghostGet(st *State, name string) *Term {
	if st.ghost != nil {
		if v, ok := st.ghost[name]; ok {
			return v
		}
	}
	sym := "ghost!" + sanitize(name) + "@0"
	x.consts[sym] = SInt
	return Sym(sym, SInt)
}

func (x *Exec) ghostSet(st *State, name string, v *Term) {
	if st.ghost == nil {
		st.ghost = map[string]*Term{}
	}
	st.ghost[name] = v
}
