package main

import (
	"encoding/json"
	"fmt"
	"os"
	"path/filepath"
	"sort"
	"strconv"
	"strings"
)

type Report struct {
	p        *Prog
	Prop     string
	Tier     string
	Results  []*UnitResult
	Wall     float64
	Problems []string
}

func buildReport(p *Prog, prop, tier string, results []*UnitResult, wall float64) *Report {
	r := &Report{p: p, Prop: prop, Tier: tier, Results: results, Wall: wall}
	for _, pr := range p.Problems {
		r.Problems = append(r.Problems, pr)
	}
	return r
}

func (r *Report) printVerbose() {
	for _, u := range r.Results {
		tot, dis, triv, failed := summarize(u.Obligations)
		fmt.Printf("== %s (%s): %d obligations, %d discharged (%d trivially), %d failed, gen %.2fs\n", u.Func, u.File, tot, dis, triv, failed, u.GenTime)
		if u.Unsupported != "" {
			fmt.Printf("   UNSUPPORTED: %s\n", u.Unsupported)
		}
		for _, n := range u.Notes {
			fmt.Printf("   note: %s\n", n)
		}
		for _, a := range shortList(u.Abstracted) {
			fmt.Printf("   abstracted: %s\n", a)
		}
		for _, o := range u.Obligations {
			if o.Status != "discharged" && o.Status != "trivial" {
				fmt.Printf("   FAILED %s [%s] at %s: %s (%s, %.2fs)\n", o.Name, o.Kind, o.Pos, o.Answer, o.Solver, o.Time)
			} else if os.Getenv("HVC_ALL") != "" {
				fmt.Printf("   ok     %s [%s] %s %.2fs\n", o.Name, o.Status, o.Solver, o.Time)
			}
		}
	}
}

type KnownFinding struct {
	Property   string `json:"property"`
	Obligation string `json:"obligation"`
	What       string `json:"what"`
	Input      string `json:"input,omitempty"`
}

type KnownFile struct {
	Findings []KnownFinding `json:"findings"`
	Fixed    []string       `json:"fixed"`
}

func loadKnown() *KnownFile {
	kf := &KnownFile{}
	data, err := os.ReadFile("/verif/known_findings.json")
	if err == nil {
		json.Unmarshal(data, kf)
	}
	return kf
}

// finish prints VIOLATION / KNOWN-FINDING lines, writes evidence and replay
// files, and returns the exit code.
func (r *Report) finish(evdir string, writeEvidence bool) int {
	known := loadKnown()
	isKnown := func(name string) *KnownFinding {
		for i := range known.Findings {
			k := &known.Findings[i]
			// A finding is identified by its obligation. The property recorded with
			// it names the check(s) it was found under; a check that verifies the
			// same unit as a dependency of its own units (see cmdCheck) meets the
			// same obligation and reports it as the same known finding.
			if k.Obligation == name {
				return k
			}
		}
		return nil
	}
	violations := 0
	var knownHits []string
	total, discharged, trivial := 0, 0, 0
	byBackend := map[string]int{}
	solverTime := 0.0
	var funcs []map[string]any
	abstracted := map[string]int{}
	ext := map[string]int{}
	var samples []any
	var vacuity []string
	var assumedAll []string
	replayDir := filepath.Join(envOr("HVC_REPLAYDIR", "/verif/replay"), r.Prop)
	var replays map[*Obligation]*ReplayResult
	emitViolation := func(name, reason string, o *Obligation) {
		violations++
		os.MkdirAll(replayDir, 0o755)
		fn := strings.NewReplacer("/", "_", " ", "_", "#", "-", ":", "-", "*", "", "(", "", ")", "").Replace(name)
		if len(fn) > 120 {
			fn = fn[:120]
		}
		path := filepath.Join(replayDir, fn+".json")
		rep := map[string]any{"property": r.Prop, "obligation": name, "reason": reason}
		suffix := " no-failing-input-found"
		if o != nil {
			rep["kind"] = o.Kind
			rep["position"] = o.Pos
			rep["source"] = o.Text
			rep["solver"] = o.Solver
			rep["answer"] = o.Answer
			rep["solver_output"] = o.Model
			rep["query"] = o.Query
			if rp := replays[o]; rp != nil {
				rep["replay"] = rp
				if rp.Confirmed {
					suffix = ""
				}
			}
		}
		data, _ := json.MarshalIndent(rep, "", " ")
		os.WriteFile(path, data, 0o644)
		fmt.Printf("VIOLATION property=%s replay=%s obligation=%s reason=%s%s\n", r.Prop, path, name, reason, suffix)
	}
	// replay the failed obligations on the real code first
	var failedObls []*Obligation
	for _, u := range r.Results {
		for _, o := range u.Obligations {
			if !o.Vacuity && o.Status == "failed" && isKnown(o.Name) == nil {
				failedObls = append(failedObls, o)
			}
		}
	}
	replays = replayAll(r.p, failedObls)
	for _, pr := range r.Problems {
		emitViolation("contracts", pr, nil)
	}
	// a function verified once per value of a split expression has a
	// satisfiable precondition if it has one for some value
	vacOK := map[string]bool{}
	for _, u := range r.Results {
		for _, o := range u.Obligations {
			if o.Vacuity && o.Status != "failed" {
				vacOK[o.Func] = true
			}
		}
	}
	// reachability: an assertion (or the return of a function) that no explored
	// path reaches with a satisfiable path condition is proved vacuously. The
	// instances of one point are aggregated over paths and split units.
	coverKey := func(o *Obligation) string {
		n := o.Name
		if i := strings.LastIndex(n, "~"); i > 0 && !strings.Contains(n[i:], ":") {
			n = n[:i]
		}
		if i := strings.Index(n, "#"); i > 0 {
			f := n[:i]
			if j := strings.Index(f, "["); j > 0 && strings.HasSuffix(f, "]") && !strings.Contains(f, "[\"") {
				n = f[:j] + n[i:]
			}
		}
		return n
	}
	coverSeen := map[string]*Obligation{}
	coverLive := map[string]bool{}
	var coverOrder []string
	coverInstances := 0
	for _, u := range r.Results {
		for _, o := range u.Obligations {
			if !o.Cover {
				continue
			}
			coverInstances++
			k := coverKey(o)
			if coverSeen[k] == nil {
				coverSeen[k] = o
				coverOrder = append(coverOrder, k)
			}
			if o.Status != "failed" {
				coverLive[k] = true
			}
		}
	}
	var unreachable []string
	for _, k := range coverOrder {
		if !coverLive[k] {
			unreachable = append(unreachable, k)
			emitViolation(k, "vacuous: no explored path reaches this point with a satisfiable path condition", coverSeen[k])
		}
	}
	var splitVacuous []string
	for _, u := range r.Results {
		tot, dis, triv, _ := summarize(u.Obligations)
		fe := map[string]any{"func": u.Func, "file": u.File, "obligations": tot, "discharged": dis, "trivial": triv}
		if u.Dependency {
			fe["role"] = "dependency (its contract is relied upon by a unit of this property; listed under " + strings.Join(u.Serves, ",") + ")"
		}
		if u.Unsupported != "" {
			fe["unsupported"] = u.Unsupported
			emitViolation(u.Func+"#unit", "unit-not-verifiable: "+u.Unsupported, nil)
		}
		funcs = append(funcs, fe)
		for k, v := range u.Abstracted {
			abstracted[u.Func+": "+k] += v
		}
		for k, v := range u.ExtUsed {
			ext[k] += v
		}
		assumedAll = append(assumedAll, u.Assumed...)
		for _, o := range u.Obligations {
			if o.Cover {
				solverTime += o.Time
				continue
			}
			if o.Vacuity {
				if o.Status == "failed" && vacOK[o.Func] && strings.Contains(o.Name, "]#vacuity") {
					splitVacuous = append(splitVacuous, o.Name)
					continue
				}
				if o.Status == "failed" {
					vacuity = append(vacuity, o.Name)
					emitViolation(o.Name, "vacuous-precondition", o)
				}
				continue
			}
			if k := isKnown(o.Name); k != nil && o.Status == "failed" {
				knownHits = append(knownHits, o.Name)
				fmt.Printf("KNOWN-FINDING: property=%s %s [%s]\n", r.Prop, k.What, o.Name)
				continue
			}
			total++
			solverTime += o.Time
			switch o.Status {
			case "trivial":
				trivial++
				discharged++
				byBackend["simplifier"]++
			case "discharged":
				discharged++
				byBackend[o.Solver]++
				if len(samples) < 3 && o.Kind == "post" {
					q := o.Query
					if len(q) > 1500 {
						q = q[:1500] + " ...[truncated]"
					}
					samples = append(samples, map[string]any{"obligation": o.Name, "kind": o.Kind, "answer": o.Answer, "solver": o.Solver, "time_s": o.Time, "smt": q})
				}
			default:
				emitViolation(o.Name, "obligation-not-discharged("+o.Answer+")", o)
			}
		}
	}
	if len(samples) == 0 {
		for _, u := range r.Results {
			for _, o := range u.Obligations {
				if o.Status == "discharged" && len(samples) < 3 {
					q := o.Query
					if len(q) > 1500 {
						q = q[:1500] + " ...[truncated]"
					}
					samples = append(samples, map[string]any{"obligation": o.Name, "kind": o.Kind, "answer": o.Answer, "solver": o.Solver, "smt": q})
				}
			}
		}
	}
	if total == 0 && r.Prop != "all" {
		emitViolation("no-obligations", "vacuity: the check generated zero obligations", nil)
	}
	// thorough tier: the contracts of this property's functions, compiled into
	// run-time checks, are exercised on the program corpora with the real code.
	// A failing postcondition/assertion/invariant, a violated precondition (also
	// an assumed one) or a Go panic inside one of these functions is a violation
	// with the input attached.
	sweep := map[string]any{}
	if r.Tier == "thorough" && os.Getenv("HVC_NOSWEEP") == "" && r.Prop != "all" {
		names := map[string]bool{}
		for _, u := range r.Results {
			n := u.Func
			if i := strings.Index(n, "["); i > 0 && strings.HasSuffix(n, "]") && !strings.Contains(n, "[\"") {
				n = n[:i]
			}
			names[n] = true
		}
		// the functions of the open findings are instrumented too: an input that
		// trips a listed finding is then recognised where the finding arises, and
		// whatever it breaks further down on the same input is its consequence
		for i := range known.Findings {
			n := known.Findings[i].Obligation
			if j := strings.Index(n, "#"); j > 0 {
				n = n[:j]
			}
			if j := strings.Index(n, "["); j > 0 && strings.HasSuffix(n, "]") && !strings.Contains(n, "[\"") {
				n = n[:j]
			}
			if r.p.ByName[n] != nil {
				names[n] = true
			}
		}
		hits, ran, err := racSweep(r.p, names)
		sweep["inputs"] = ran
		if err != nil {
			sweep["error"] = err.Error()
			emitViolation("runtime-sweep", "the run-time checked build did not run: "+firstLineOf(err.Error()), nil)
		}
		sweep["failures"] = len(hits)
		reported := map[string]bool{}
		for _, h := range hits {
			var k *KnownFinding
			var kname string
			for _, ln := range strings.Split(h.Line+"\n"+h.All, "\n") {
				if f := strings.Fields(ln); len(f) >= 2 && f[0] == "RAC-FAIL" {
					if kk := isKnown(f[1]); kk != nil {
						k, kname = kk, f[1]
						break
					}
				}
			}
			if k != nil {
				// the run-time face of a listed finding (and its consequences on this input)
				if key := kname + "\x00" + h.Input; !reported[key] {
					reported[key] = true
					fmt.Printf("KNOWN-FINDING: property=%s %s [%s, run-time check on input %q]\n", r.Prop, k.What, kname, h.Input)
				}
				continue
			}
			violations++
			os.MkdirAll(replayDir, 0o755)
			fn := strings.NewReplacer("/", "_", " ", "_", "#", "-", ":", "-", "*", "", "(", "", ")", "").Replace("sweep-" + h.Line)
			if len(fn) > 120 {
				fn = fn[:120]
			}
			path := filepath.Join(replayDir, fn+".json")
			data, _ := json.MarshalIndent(map[string]any{"property": r.Prop, "obligation": h.Line, "reason": "run-time check failed on the real code", "input": h.Input, "output": h.All}, "", " ")
			os.WriteFile(path, data, 0o644)
			fmt.Printf("VIOLATION property=%s replay=%s obligation=%s reason=run-time-check-failed-on-real-code\n", r.Prop, path, strings.ReplaceAll(h.Line, " ", "_"))
		}
	}
	fmt.Printf("hvc: property=%s tier=%s units=%d obligations=%d discharged=%d (trivial %d) known-findings=%d violations=%d wall=%.1fs\n",
		r.Prop, r.Tier, len(r.Results), total, discharged, trivial, len(knownHits), violations, r.Wall)
	if writeEvidence && r.Prop != "all" {
		seed, _ := strconv.Atoi(os.Getenv("VERIF_SEED"))
		var absList, extList []string
		for _, k := range sortedKeys(abstracted) {
			absList = append(absList, fmt.Sprintf("%s x%d", k, abstracted[k]))
		}
		for _, k := range sortedKeys(ext) {
			extList = append(extList, fmt.Sprintf("%s x%d", k, ext[k]))
		}
		sort.Strings(knownHits)
		// every assumption the proofs of this property's units used: free
		// preconditions, assumptions at program points, assumed callee
		// preconditions, assumed postconditions, assumed purity/effects of dynamic
		// calls, units whose own run-time safety is assumed, and the contracts used
		// at call sites whose bodies are not verified (trusted)
		unitAssumptions := uniqueSorted(assumedAll)
		var safetyAssumed []string
		for _, u := range r.Results {
			n := u.Func
			if i := strings.Index(n, "["); i > 0 && strings.HasSuffix(n, "]") && !strings.Contains(n, "[\"") {
				n = n[:i]
			}
			if fi := r.p.ByName[n]; fi != nil && fi.Flag("assume-safety") {
				safetyAssumed = append(safetyAssumed, n)
			}
		}
		safetyAssumed = uniqueSorted(safetyAssumed)
		trusted := r.trustedContracts()
		allAssumptions := append(append([]string{}, trustedBase...), unmechanised[r.Prop]...)
		allAssumptions = append(allAssumptions, unitAssumptions...)
		for _, t := range trusted {
			allAssumptions = append(allAssumptions, "trusted contract (used at call sites, body not verified): "+t)
		}
		for _, t := range safetyAssumed {
			allAssumptions = append(allAssumptions, "assume-safety (nil/index/cast/division obligations of the unit's own body are assumed, only its functional clauses are proved): "+t)
		}
		ev := map[string]any{
			"property_id": r.Prop,
			"tier":        r.Tier,
			"seed":        seed,
			"level":       "proof",
			"wall_s":      r.Wall,
			"violations":  violations,
			"coverage": map[string]any{
				"obligations":                           total,
				"discharged":                            discharged,
				"checker_cmd":                           "/verif/bin/hvc check -property " + r.Prop + " -tier " + r.Tier,
				"trusted_base":                          trustedBase,
				"samples":                               samples,
				"functions_under_contract":              funcs,
				"by_backend":                            byBackend,
				"solver_time_s":                         solverTime,
				"abstracted_sites":                      absList,
				"assumed_external_contracts":            extList,
				"known_findings":                        knownHits,
				"vacuity_alarms":                        vacuity,
				"split_values_excluded_by_precondition": splitVacuous,
				"trivially_true_obligations":            trivial,
				"reachability_checks":                   map[string]any{"points": len(coverOrder), "instances": coverInstances, "unreachable": unreachable, "what": "every contract assertion and the return of every function under contract must be reached by a path with a satisfiable path condition (guards against vacuous proofs)"},
				"unmechanised_lemmas":                   unmechanised[r.Prop],
				"bounded_checks":                        []string{},
				"runtime_sweep":                         sweep,
				"unit_assumptions":                      unitAssumptions,
				"trusted_contracts":                     trusted,
				"units_with_assumed_safety":             safetyAssumed,
				"explanation":                           "weakest-precondition style VCs generated by hvc from the current /repo tree (contracts in zz_contracts_verif.go), one SMT query per obligation",
			},
			"assumptions": allAssumptions,
		}
		os.MkdirAll(evdir, 0o755)
		data, _ := json.MarshalIndent(ev, "", " ")
		os.WriteFile(filepath.Join(evdir, r.Prop+".json"), data, 0o644)
	}
	if violations > 0 {
		return 1
	}
	return 0
}

var trustedBase = []string{
	"go/parser + go/types (x/tools v0.29.0 loader) for the typed AST of the instrumented overlay",
	"hvc's translation of the Go subset to SMT (mitigated by the must-fail corpus in /verif/selftest and reachability/vacuity checks)",
	"SMT solvers z3 5.1.0, z3 4.8.12, cvc5 1.0 (unsat answers)",
	"memory model: no unsafe, inputs allocated below the entry allocation counter, slices have cap <= 2^50, closed world of interface implementers within the module",
	"sequential execution: the verified function runs single-threaded on the state it touches",
	"interior pointers passed as receivers are modelled copy-in/copy-out (callee does not retain the pointer)",
	"external functions (standard library) behave as the models in hvc/ext.go: pure, total, results unconstrained unless stated",
	"termination is proved only where a decreases clause is listed",
}

var unmechanised = map[string][]string{}

type ReplayResult struct {
	Confirmed bool   `json:"confirmed"`
	Note      string `json:"note"`
	Input     string `json:"input,omitempty"`
	Output    string `json:"output,omitempty"`
}

// trustedContracts: the contracts flagged `trusted` (assumed, never verified)
// that the units of this check rely on at their call sites.
func (r *Report) trustedContracts() []string {
	used := map[string]bool{}
	for _, u := range r.Results {
		for n := range u.Used {
			used[n] = true
		}
	}
	var out []string
	for _, name := range sortedKeys(r.p.ByName) {
		fi := r.p.ByName[name]
		if fi.Flag("trusted") && (used[name] || r.Prop == "all") {
			out = append(out, name)
		}
	}
	return out
}

func uniqueSorted(in []string) []string {
	seen := map[string]bool{}
	var out []string
	for _, x := range in {
		if !seen[x] {
			seen[x] = true
			out = append(out, x)
		}
	}
	sort.Strings(out)
	return out
}
