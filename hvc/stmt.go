package main

import (
	"go/ast"
	"go/token"
	"go/types"
)

func (s *State) dead() bool {
	return len(s.pc) > 0 && s.pc[len(s.pc)-1].isFalse()
}

func (s *State) kill() { s.pc = append(s.pc, tFalse) }

func (x *Exec) execBlock(st *State, list []ast.Stmt) *State {
	for i, s := range list {
		if st == nil {
			return nil
		}
		if x.cur().fi.markers[s] {
			continue
		}
		// tail duplication: a straight-line continuation after a branching
		// statement is executed once per branch instead of on the merged state
		// (the merged state of a large switch makes every later query slow)
		if isBranching(s) && i+1 < len(list) && straightLine(list[i+1:]) && x.spec == 0 {
			x.contFor[s] = list[i+1:]
			st = x.exec(st, s)
			delete(x.contFor, s)
			if st != nil && st.dead() {
				return nil
			}
			return st
		}
		st = x.exec(st, s)
		if st != nil && st.dead() {
			return nil
		}
	}
	return st
}

func isBranching(s ast.Stmt) bool {
	switch s.(type) {
	case *ast.SwitchStmt, *ast.TypeSwitchStmt, *ast.IfStmt:
		return true
	}
	return false
}

// straightLine: at most a few statements without loops or branches.
func straightLine(list []ast.Stmt) bool {
	if len(list) > 4 {
		return false
	}
	ok := true
	for _, s := range list {
		ast.Inspect(s, func(n ast.Node) bool {
			switch n.(type) {
			case *ast.ForStmt, *ast.RangeStmt, *ast.SwitchStmt, *ast.TypeSwitchStmt, *ast.IfStmt, *ast.SelectStmt, *ast.FuncLit, *ast.LabeledStmt, *ast.BranchStmt, *ast.DeferStmt:
				ok = false
			}
			return ok
		})
	}
	return ok
}

// applyCont runs the pending continuation of branching statement s on the
// state at the end of one of its branches.
func (x *Exec) applyCont(s ast.Stmt, st *State) *State {
	rest, ok := x.contFor[s]
	if !ok || st == nil {
		return st
	}
	// the continuation must not be applied again by nested statements
	delete(x.contFor, s)
	out := x.execBlock(st, rest)
	x.contFor[s] = rest
	return out
}

func (x *Exec) exec(st *State, s ast.Stmt) *State {
	x.curStmt = s
	switch s := s.(type) {
	case *ast.EmptyStmt:
		return st
	case *ast.BlockStmt:
		return x.execBlock(st, s.List)
	case *ast.ExprStmt:
		if call, ok := ast.Unparen(s.X).(*ast.CallExpr); ok {
			x.evalCall(st, call)
			return st
		}
		x.eval(st, s.X)
		return st
	case *ast.AssignStmt:
		return x.execAssign(st, s)
	case *ast.IncDecStmt:
		pl := x.place(st, s.X)
		v := x.readPlace(st, pl)
		t := x.typeOf(s.X)
		var nv *Term
		if s.Tok == token.INC {
			nv = x.arithResult(st, Add(v, IntLit(1)), t, func() *Term { return x.wrapAddSub(Add(v, IntLit(1)), t) }, s)
		} else {
			nv = x.arithResult(st, Sub(v, IntLit(1)), t, func() *Term { return x.wrapAddSub(Sub(v, IntLit(1)), t) }, s)
		}
		x.writePlace(st, pl, nv, s)
		return st
	case *ast.DeclStmt:
		gd, ok := s.Decl.(*ast.GenDecl)
		if !ok || gd.Tok != token.VAR {
			return st // type and const declarations have no effect
		}
		for _, sp := range gd.Specs {
			vs := sp.(*ast.ValueSpec)
			if len(vs.Values) == 0 {
				for _, n := range vs.Names {
					if v, ok := x.info().Defs[n].(*types.Var); ok {
						x.declare(st, v, x.zero(v.Type()), s)
					}
				}
			} else if len(vs.Values) == len(vs.Names) {
				for i, n := range vs.Names {
					v, ok := x.info().Defs[n].(*types.Var)
					if !ok {
						x.eval(st, vs.Values[i])
						continue
					}
					x.declareFrom(st, v, vs.Values[i], s)
				}
			} else {
				vals := x.evalMulti(st, vs.Values[0], len(vs.Names))
				for i, n := range vs.Names {
					if v, ok := x.info().Defs[n].(*types.Var); ok {
						x.declare(st, v, vals[i], s)
					}
				}
			}
		}
		return st
	case *ast.IfStmt:
		return x.execIf(st, s)
	case *ast.ForStmt:
		return x.execFor(st, s, "")
	case *ast.RangeStmt:
		return x.execRange(st, s, "")
	case *ast.LabeledStmt:
		switch inner := s.Stmt.(type) {
		case *ast.ForStmt:
			return x.execFor(st, inner, s.Label.Name)
		case *ast.RangeStmt:
			return x.execRange(st, inner, s.Label.Name)
		case *ast.SwitchStmt:
			return x.execSwitch(st, inner, s.Label.Name)
		}
		return x.exec(st, s.Stmt)
	case *ast.SwitchStmt:
		return x.execSwitch(st, s, "")
	case *ast.TypeSwitchStmt:
		return x.execTypeSwitch(st, s)
	case *ast.ReturnStmt:
		x.execReturn(st, s)
		return nil
	case *ast.BranchStmt:
		switch s.Tok {
		case token.BREAK, token.CONTINUE:
			label := ""
			if s.Label != nil {
				label = s.Label.Name
			}
			for i := len(x.loops) - 1; i >= 0; i-- {
				lc := x.loops[i]
				if lc == nil {
					break // function boundary
				}
				if label != "" && lc.label != label {
					continue
				}
				if s.Tok == token.CONTINUE {
					if lc.isSwitch {
						continue
					}
					lc.continues = append(lc.continues, st)
				} else {
					lc.breaks = append(lc.breaks, st)
				}
				return nil
			}
			x.unsupported(s, "branch target not found")
		case token.FALLTHROUGH:
			return st // handled by the switch
		}
		x.unsupported(s, "branch statement %s", s.Tok)
	case *ast.DeferStmt:
		st.defers = append(st.defers, deferred{call: s.Call, frame: x.cur()})
		return st
	case *ast.GoStmt:
		// the spawned goroutine is not executed; its arguments are evaluated
		for _, a := range s.Call.Args {
			x.eval(st, a)
		}
		x.abstracted("go statement")
		// ghost counter of started goroutines: lets a contract say that a
		// function starts exactly the goroutines it promises
		x.ghostSet(st, "goroutines", Add(x.ghostGet(st, "goroutines"), IntLit(1)))
		return st
	case *ast.SendStmt:
		ch := x.eval(st, s.Chan)
		ct := x.typeOf(s.Chan).Underlying().(*types.Chan)
		v := x.evalAs(st, s.Value, ct.Elem())
		// ghost record of the last value sent and the number of sends per channel
		srt := x.p.Reg.sortOf(ct.Elem())
		hn := "ghost$sent$" + sanitize(string(srt))
		x.setHeap(st, hn, Store(x.heap(st, hn, srt), ch, v))
		cnt := x.hread(st, "ghost$sentn", SInt, ch)
		x.setHeap(st, "ghost$sentn", Store(x.heap(st, "ghost$sentn", SInt), ch, Add(cnt, IntLit(1))))
		x.abstracted("channel send (recorded in ghost state; blocking not modelled)")
		return st
	case *ast.SelectStmt:
		return x.execSelect(st, s)
	}
	x.unsupported(s, "statement form %T", s)
	return nil
}

// declare binds a freshly declared local variable.
func (x *Exec) declare(st *State, v *types.Var, val *Term, at ast.Node) {
	if x.boxed[v] {
		ref := x.allocRefs(st, IntLit(1))
		x.storeAt(st, v.Type(), ref, val, at)
		st.vars[v] = ref
		return
	}
	st.vars[v] = val
}

func (x *Exec) declareFrom(st *State, v *types.Var, e ast.Expr, at ast.Node) {
	val := x.evalAs(st, e, v.Type())
	x.declare(st, v, val, at)
	if fl, ok := ast.Unparen(e).(*ast.FuncLit); ok {
		st.closures[v] = fl
	}
}

func (x *Exec) evalMulti(st *State, e ast.Expr, n int) []*Term {
	e = ast.Unparen(e)
	switch e := e.(type) {
	case *ast.CallExpr:
		rs := x.evalCall(st, e)
		if len(rs) != n {
			x.unsupported(e, "call yields %d values, want %d", len(rs), n)
		}
		return rs
	case *ast.IndexExpr:
		if mt, ok := x.typeOf(e.X).Underlying().(*types.Map); ok && n == 2 {
			m := x.eval(st, e.X)
			k := x.evalAs(st, e.Index, mt.Key())
			val, ok := x.mapLookup(st, mt, m, k)
			return []*Term{Ite(ok, val, x.zero(mt.Elem())), ok}
		}
	case *ast.TypeAssertExpr:
		if n == 2 {
			v := x.eval(st, e.X)
			t := x.typeOf(e.Type)
			ok, val := x.typeTest(st, v, x.typeOf(e.X), t)
			return []*Term{Ite(ok, val, x.zero(t)), ok}
		}
	case *ast.UnaryExpr:
		if e.Op == token.ARROW && n == 2 {
			x.eval(st, e.X)
			x.abstracted("channel receive")
			return []*Term{x.unknown(st, "recv", x.typeOf(e)), x.fresh("recvok", SBool)}
		}
	}
	x.unsupported(e, "multi-value expression")
	return nil
}

func (x *Exec) execAssign(st *State, s *ast.AssignStmt) *State {
	info := x.info()
	if s.Tok != token.ASSIGN && s.Tok != token.DEFINE {
		// op-assign
		pl := x.place(st, s.Lhs[0])
		op := map[token.Token]token.Token{token.ADD_ASSIGN: token.ADD, token.SUB_ASSIGN: token.SUB, token.MUL_ASSIGN: token.MUL, token.QUO_ASSIGN: token.QUO, token.REM_ASSIGN: token.REM, token.AND_ASSIGN: token.AND, token.OR_ASSIGN: token.OR, token.XOR_ASSIGN: token.XOR, token.SHL_ASSIGN: token.SHL, token.SHR_ASSIGN: token.SHR, token.AND_NOT_ASSIGN: token.AND_NOT}[s.Tok]
		be := &ast.BinaryExpr{X: s.Lhs[0], Op: op, Y: s.Rhs[0], OpPos: s.TokPos}
		// type information for the synthetic node
		info.Types[be] = types.TypeAndValue{Type: x.typeOf(s.Lhs[0])}
		v := x.evalBinary(st, be)
		delete(info.Types, be)
		x.writePlace(st, pl, v, s)
		return st
	}
	// evaluate right-hand sides
	var vals []*Term
	lhsType := func(i int) types.Type {
		if id, ok := s.Lhs[i].(*ast.Ident); ok {
			if id.Name == "_" {
				return nil
			}
			if o := info.ObjectOf(id); o != nil {
				return o.Type()
			}
		}
		return x.typeOf(s.Lhs[i])
	}
	if len(s.Rhs) == 1 && len(s.Lhs) > 1 {
		vals = x.evalMulti(st, s.Rhs[0], len(s.Lhs))
		// implicit conversions of call results to the lhs types
		if call, ok := ast.Unparen(s.Rhs[0]).(*ast.CallExpr); ok {
			if tup, ok := x.typeOf(call).(*types.Tuple); ok {
				for i := range vals {
					if lt := lhsType(i); lt != nil {
						vals[i] = x.convert(st, vals[i], tup.At(i).Type(), lt)
					}
				}
			}
		}
	} else {
		for i, r := range s.Rhs {
			lt := lhsType(i)
			if lt == nil {
				lt = defaultType(x.typeOf(r))
			}
			vals = append(vals, x.evalAs(st, r, lt))
		}
	}
	// places are resolved after the right-hand sides (approximation of Go's
	// order, exact when operands have no side effects on each other)
	for i, l := range s.Lhs {
		if id, ok := l.(*ast.Ident); ok {
			if id.Name == "_" {
				continue
			}
			if s.Tok == token.DEFINE {
				if v, ok := info.Defs[id].(*types.Var); ok {
					x.declare(st, v, vals[i], s)
					if i < len(s.Rhs) {
						if fl, ok := ast.Unparen(s.Rhs[i]).(*ast.FuncLit); ok {
							st.closures[v] = fl
						}
					}
					continue
				}
			}
			if v, ok := info.ObjectOf(id).(*types.Var); ok {
				delete(st.closures, v)
				if i < len(s.Rhs) {
					if fl, ok := ast.Unparen(s.Rhs[i]).(*ast.FuncLit); ok {
						st.closures[v] = fl
					}
				}
			}
		}
		pl := x.place(st, l)
		x.writePlace(st, pl, vals[i], s)
	}
	return st
}

func (x *Exec) execIf(st *State, s *ast.IfStmt) *State {
	if s.Init != nil {
		st = x.exec(st, s.Init)
		if st == nil {
			return nil
		}
	}
	c := x.eval(st, s.Cond)
	c = x.simplifyKnown(st, c)
	if c.isTrue() {
		return x.applyCont(s, x.execBlock(st, s.Body.List))
	}
	if c.isFalse() {
		if s.Else != nil {
			return x.applyCont(s, x.exec(st, s.Else))
		}
		return x.applyCont(s, st)
	}
	n := len(st.pc)
	t := st.clone()
	t.pc = append(t.pc, c)
	e := st
	e.pc = append(e.pc, Not(c))
	tEnd := x.applyCont(s, x.execBlock(t, s.Body.List))
	eEnd := e
	if s.Else != nil {
		eEnd = x.exec(e, s.Else)
	}
	eEnd = x.applyCont(s, eEnd)
	return x.merge(n, []*State{tEnd, eEnd})
}

func (x *Exec) eqValues(st *State, a *Term, at types.Type, e ast.Expr) *Term {
	tv := x.info().Types[e]
	if tv.IsNil() {
		return Eq(a, x.zero(at))
	}
	var b *Term
	if tv.Value != nil && !isIfaceType(at) {
		b = x.constTerm(tv.Value, at)
	} else {
		b = x.evalAs(st, e, at)
		if isIfaceType(tv.Type) && !isIfaceType(at) {
			// concrete tag against interface case expression
			a = x.convert(st, a, at, tv.Type)
			b = x.eval(st, e)
		}
	}
	if a.Sort == SFloat {
		return mk("fp.eq", SBool, a, b)
	}
	return Eq(a, b)
}

func (x *Exec) execSwitch(st *State, s *ast.SwitchStmt, label string) *State {
	if s.Init != nil {
		st = x.exec(st, s.Init)
		if st == nil {
			return nil
		}
	}
	var tag *Term
	var tagT types.Type
	if s.Tag != nil {
		tag = x.eval(st, s.Tag)
		tagT = defaultType(x.typeOf(s.Tag))
	}
	n := len(st.pc)
	clauses := s.Body.List
	conds := make([]*Term, len(clauses))
	var notPrev []*Term
	defIdx := -1
	for i, c := range clauses {
		cc := c.(*ast.CaseClause)
		if cc.List == nil {
			defIdx = i
			continue
		}
		var alts []*Term
		for _, e := range cc.List {
			if tag != nil {
				alts = append(alts, x.eqValues(st, tag, tagT, e))
			} else {
				alts = append(alts, x.eval(st, e))
			}
		}
		this := Or(alts...)
		conds[i] = And(append(append([]*Term(nil), notPrev...), this)...)
		notPrev = append(notPrev, Not(this))
	}
	lc := &loopCtx{label: label, isSwitch: true}
	x.loops = append(x.loops, lc)
	var ends []*State
	var carry *State // fallthrough state
	for i, c := range clauses {
		cc := c.(*ast.CaseClause)
		var cond *Term
		if i == defIdx {
			cond = And(notPrev...)
		} else {
			cond = conds[i]
		}
		var bs *State
		if !cond.isFalse() {
			bs = st.clone()
			bs.pc = append(bs.pc, cond)
		}
		if carry != nil {
			bs = x.merge(n, []*State{bs, carry})
			carry = nil
		}
		if bs == nil {
			continue
		}
		end := x.execBlock(bs, cc.Body)
		if end != nil && len(cc.Body) > 0 {
			if br, ok := cc.Body[len(cc.Body)-1].(*ast.BranchStmt); ok && br.Tok == token.FALLTHROUGH {
				carry = end
				continue
			}
		}
		ends = append(ends, end)
	}
	if defIdx < 0 {
		none := And(notPrev...)
		if !none.isFalse() {
			ds := st.clone()
			ds.pc = append(ds.pc, none)
			ends = append(ends, ds)
		}
	}
	x.loops = x.loops[:len(x.loops)-1]
	ends = append(ends, lc.breaks...)
	for i := range ends {
		ends[i] = x.applyCont(s, ends[i])
	}
	return x.merge(n, ends)
}

func (x *Exec) execTypeSwitch(st *State, s *ast.TypeSwitchStmt) *State {
	if s.Init != nil {
		st = x.exec(st, s.Init)
		if st == nil {
			return nil
		}
	}
	var xe ast.Expr
	switch a := s.Assign.(type) {
	case *ast.ExprStmt:
		xe = ast.Unparen(a.X).(*ast.TypeAssertExpr).X
	case *ast.AssignStmt:
		xe = ast.Unparen(a.Rhs[0]).(*ast.TypeAssertExpr).X
	}
	v := x.eval(st, xe)
	from := x.typeOf(xe)
	n := len(st.pc)
	lc := &loopCtx{isSwitch: true}
	x.loops = append(x.loops, lc)
	var ends []*State
	var notPrev []*Term
	var defClause *ast.CaseClause
	for _, c := range s.Body.List {
		cc := c.(*ast.CaseClause)
		if cc.List == nil {
			defClause = cc
			continue
		}
		var alts []*Term
		var single *Term
		for _, te := range cc.List {
			if x.info().Types[te].IsNil() {
				alts = append(alts, Eq(v, ifaceNil))
				continue
			}
			t := x.typeOf(te)
			ok, val := x.typeTest(st, v, from, t)
			alts = append(alts, ok)
			single = val
		}
		this := Or(alts...)
		cond := And(append(append([]*Term(nil), notPrev...), this)...)
		notPrev = append(notPrev, Not(this))
		if cond.isFalse() {
			continue
		}
		bs := st.clone()
		bs.pc = append(bs.pc, cond)
		if iv, ok := x.info().Implicits[cc].(*types.Var); ok {
			if len(cc.List) == 1 && single != nil {
				x.declare(bs, iv, single, cc)
			} else {
				x.declare(bs, iv, v, cc)
			}
		}
		ends = append(ends, x.execBlock(bs, cc.Body))
	}
	none := And(notPrev...)
	if !none.isFalse() {
		ds := st.clone()
		ds.pc = append(ds.pc, none)
		if defClause != nil {
			if iv, ok := x.info().Implicits[defClause].(*types.Var); ok {
				x.declare(ds, iv, v, defClause)
			}
			ends = append(ends, x.execBlock(ds, defClause.Body))
		} else {
			ends = append(ends, ds)
		}
	}
	x.loops = x.loops[:len(x.loops)-1]
	ends = append(ends, lc.breaks...)
	for i := range ends {
		ends[i] = x.applyCont(s, ends[i])
	}
	return x.merge(n, ends)
}

func (x *Exec) execSelect(st *State, s *ast.SelectStmt) *State {
	n := len(st.pc)
	lc := &loopCtx{isSwitch: true}
	x.loops = append(x.loops, lc)
	var ends []*State
	var prev []*Term
	for _, c := range s.Body.List {
		cc := c.(*ast.CommClause)
		choice := x.fresh("select", SBool)
		if c := x.ctxDoneRecv(st, cc.Comm); c != nil {
			// receiving from ctx.Done() succeeds exactly when the context is cancelled
			choice = c
		}
		bs := st.clone()
		bs.pc = append(bs.pc, And(append(append([]*Term(nil), prev...), choice)...))
		prev = append(prev, Not(choice))
		if cc.Comm != nil {
			switch cm := cc.Comm.(type) {
			case *ast.ExprStmt:
				if ue, ok := ast.Unparen(cm.X).(*ast.UnaryExpr); ok && ue.Op == token.ARROW {
					x.eval(bs, ue.X)
				}
			case *ast.AssignStmt:
				x.execAssign(bs, cm)
			case *ast.SendStmt:
				x.exec(bs, cm)
			}
		}
		ends = append(ends, x.execBlock(bs, cc.Body))
	}
	x.abstracted("select statement")
	x.loops = x.loops[:len(x.loops)-1]
	ends = append(ends, lc.breaks...)
	return x.merge(n, ends)
}

// ctxDoneRecv: if comm receives from <ctx>.Done() of a context.Context, the
// ghost predicate "ctx is cancelled" (nil otherwise).
func (x *Exec) ctxDoneRecv(st *State, comm ast.Stmt) *Term {
	var recv ast.Expr
	switch cm := comm.(type) {
	case *ast.ExprStmt:
		recv = cm.X
	case *ast.AssignStmt:
		if len(cm.Rhs) == 1 {
			recv = cm.Rhs[0]
		}
	}
	ue, ok := ast.Unparen(recv).(*ast.UnaryExpr)
	if recv == nil || !ok || ue.Op != token.ARROW {
		return nil
	}
	call, ok := ast.Unparen(ue.X).(*ast.CallExpr)
	if !ok {
		return nil
	}
	sel, ok := ast.Unparen(call.Fun).(*ast.SelectorExpr)
	if !ok || sel.Sel.Name != "Done" || typeStr(x.typeOf(sel.X)) != "context.Context" {
		return nil
	}
	x.spec++
	ctx := x.eval(st.clone(), sel.X)
	x.spec--
	return x.app("ctx.cancelled", SBool, ctx)
}

// ---------------------------------------------------------------- places

type place struct {
	kind  int // 0 var, 1 cell, 2 map element, 3 blank, 4 global
	v     *types.Var
	typ   types.Type // type of the root (variable, cell or global)
	ref   *Term
	path  []int
	mapT  *types.Map
	mref  *Term
	key   *Term
	gheap string
}

const (
	plVar = iota
	plCell
	plMap
	plBlank
	plGlobal
)

func (x *Exec) place(st *State, e ast.Expr) place {
	e = ast.Unparen(e)
	switch e := e.(type) {
	case *ast.Ident:
		if e.Name == "_" {
			return place{kind: plBlank}
		}
		v, ok := x.info().ObjectOf(e).(*types.Var)
		if !ok {
			x.unsupported(e, "assignment target %s", e.Name)
		}
		if v.Pkg() != nil && v.Parent() == v.Pkg().Scope() {
			return place{kind: plGlobal, v: v, typ: v.Type(), gheap: globalHeap(v)}
		}
		if x.boxed[v] {
			return place{kind: plCell, typ: v.Type(), ref: st.vars[v]}
		}
		return place{kind: plVar, v: v, typ: v.Type()}
	case *ast.SelectorExpr:
		sel, ok := x.info().Selections[e]
		if !ok {
			// qualified package variable
			return x.place(st, e.Sel)
		}
		if sel.Kind() != types.FieldVal {
			x.unsupported(e, "assignment to method value")
		}
		var pl place
		curT := x.typeOf(e.X)
		if _, isPtr := curT.Underlying().(*types.Pointer); isPtr {
			p := x.eval(st, e.X)
			x.derefCheck(st, p, e)
			curT = curT.Underlying().(*types.Pointer).Elem()
			pl = place{kind: plCell, typ: curT, ref: p}
		} else {
			pl = x.place(st, e.X)
		}
		for _, idx := range sel.Index() {
			if pt, isPtr := curT.Underlying().(*types.Pointer); isPtr {
				p := x.readPlace(st, pl)
				x.derefCheck(st, p, e)
				curT = pt.Elem()
				pl = place{kind: plCell, typ: curT, ref: p}
			}
			stt := curT.Underlying().(*types.Struct)
			pl.path = append(append([]int(nil), pl.path...), idx)
			curT = stt.Field(idx).Type()
		}
		return pl
	case *ast.StarExpr:
		p := x.eval(st, e.X)
		x.derefCheck(st, p, e)
		return place{kind: plCell, typ: x.typeOf(e.X).Underlying().(*types.Pointer).Elem(), ref: p}
	case *ast.IndexExpr:
		switch u := x.typeOf(e.X).Underlying().(type) {
		case *types.Slice:
			s := x.eval(st, e.X)
			i := x.eval(st, e.Index)
			x.oblige(st, "idx", "", And(Le(IntLit(0), i), Lt(i, slLen(s))), e)
			return place{kind: plCell, typ: u.Elem(), ref: Add(slBase(s), i)}
		case *types.Map:
			m := x.eval(st, e.X)
			k := x.evalAs(st, e.Index, u.Key())
			return place{kind: plMap, mapT: u, mref: m, key: k, typ: u.Elem()}
		case *types.Array:
			i := x.eval(st, e.Index)
			if n, ok := i.intVal(); ok && n.IsInt64() && n.Int64() >= 0 && n.Int64() < u.Len() && x.p.Reg.structOf(x.typeOf(e.X)) != nil {
				pl := x.place(st, e.X)
				pl.path = append(append([]int(nil), pl.path...), int(n.Int64()))
				return pl
			}
		}
	}
	x.unsupported(e, "assignment target %s", x.nodeText(e))
	return place{}
}

// the type reached by following path from typ
func pathType(typ types.Type, path []int) types.Type {
	for _, i := range path {
		typ = aggFieldType(typ, i)
	}
	return typ
}

func (x *Exec) getPath(root *Term, typ types.Type, path []int) *Term {
	for _, i := range path {
		ss := x.p.Reg.structOf(typ)
		root = getField(ss, root, i)
		typ = aggFieldType(typ, i)
	}
	return root
}

func (x *Exec) setPath(root *Term, typ types.Type, path []int, v *Term) *Term {
	if len(path) == 0 {
		return v
	}
	ss := x.p.Reg.structOf(typ)
	i := path[0]
	ft := aggFieldType(typ, i)
	inner := x.setPath(getField(ss, root, i), ft, path[1:], v)
	return setField(ss, root, i, inner)
}

func (x *Exec) readPlace(st *State, pl place) *Term {
	switch pl.kind {
	case plVar:
		root, ok := st.vars[pl.v]
		if !ok {
			x.unsupported(nil, "variable %s not bound", pl.v.Name())
		}
		return x.getPath(root, pl.typ, pl.path)
	case plGlobal:
		root := x.hread(st, pl.gheap, x.p.Reg.sortOf(pl.typ), IntLit(0))
		return x.getPath(root, pl.typ, pl.path)
	case plCell:
		if _, isStruct := pl.typ.Underlying().(*types.Struct); isStruct && len(pl.path) > 0 {
			stt := pl.typ.Underlying().(*types.Struct)
			f := stt.Field(pl.path[0])
			ss := x.p.Reg.structOf(pl.typ)
			root := x.hread(st, fieldHeap(pl.typ, f.Name()), ss.Fields[pl.path[0]].Sort, pl.ref)
			return x.getPath(root, f.Type(), pl.path[1:])
		}
		return x.getPath(x.loadAt(st, pl.typ, pl.ref), pl.typ, pl.path)
	case plMap:
		val, ok := x.mapLookup(st, pl.mapT, pl.mref, pl.key)
		return Ite(ok, val, x.zero(pl.mapT.Elem()))
	}
	x.unsupported(nil, "read of blank place")
	return nil
}

func (x *Exec) writePlace(st *State, pl place, v *Term, at ast.Node) {
	switch pl.kind {
	case plBlank:
	case plVar:
		root, ok := st.vars[pl.v]
		if !ok && len(pl.path) > 0 {
			x.unsupported(at, "variable %s not bound", pl.v.Name())
		}
		st.vars[pl.v] = x.setPath(root, pl.typ, pl.path, v)
	case plGlobal:
		srt := x.p.Reg.sortOf(pl.typ)
		root := x.hread(st, pl.gheap, srt, IntLit(0))
		x.hwrite(st, pl.gheap, srt, IntLit(0), x.setPath(root, pl.typ, pl.path, v), at)
	case plCell:
		if stt, isStruct := pl.typ.Underlying().(*types.Struct); isStruct && len(pl.path) > 0 {
			f := stt.Field(pl.path[0])
			ss := x.p.Reg.structOf(pl.typ)
			hn := fieldHeap(pl.typ, f.Name())
			fs := ss.Fields[pl.path[0]].Sort
			var nv *Term
			if len(pl.path) == 1 {
				nv = v
			} else {
				root := x.hread(st, hn, fs, pl.ref)
				nv = x.setPath(root, f.Type(), pl.path[1:], v)
			}
			x.hwrite(st, hn, fs, pl.ref, nv, at)
			return
		}
		if len(pl.path) == 0 {
			x.storeAt(st, pl.typ, pl.ref, v, at)
			return
		}
		x.unsupported(at, "path write into non-struct cell")
	case plMap:
		x.mapStore(st, pl.mapT, pl.mref, pl.key, v, at)
	}
}

// simplifyKnown decides a condition that is literally assumed (or whose
// negation is) on the current path; a cheap way to avoid executing branches
// that a precondition rules out.
func (x *Exec) simplifyKnown(st *State, c *Term) *Term {
	if c.IsLeaf() && (c.isTrue() || c.isFalse()) {
		return c
	}
	nc := Not(c)
	for _, f := range st.pc {
		if f == c {
			return tTrue
		}
		if f == nc {
			return tFalse
		}
		if f.Op == "and" {
			for _, g := range f.Args {
				if g == c {
					return tTrue
				}
				if g == nc {
					return tFalse
				}
			}
		}
	}
	return c
}
