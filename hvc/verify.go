package main

import (
	"fmt"
	"go/ast"
	"go/types"
	"math/big"
	"runtime/debug"
	"sort"
	"strings"
)

type UnitResult struct {
	Func        string
	File        string
	Obligations []*Obligation
	Unsupported string
	Notes       []string
	Abstracted  map[string]int
	ExtUsed     map[string]int
	Used        map[string]bool // callee contracts relied upon
	Dependency  bool            // verified because a unit of the property relies on its contract
	Assumed     []string
	Serves      []string
	GenTime     float64
}

// verifyUnit generates the obligations of one function under contract.
// verifyUnits verifies a function, once per value of its split expression when it has one.
func verifyUnits(p *Prog, fi *FuncInfo) []*UnitResult {
	if fi.SplitExpr == nil {
		return []*UnitResult{verifyUnit(p, fi, nil, nil, 0)}
	}
	var out []*UnitResult
	for k := fi.SplitLo; k <= fi.SplitHi; k++ {
		kk := k
		var conds []ast.Expr
		for _, sc := range fi.SplitConds {
			if sc.At == k {
				conds = append(conds, sc.Expr)
			}
		}
		if len(conds) == 0 {
			out = append(out, verifyUnit(p, fi, &kk, nil, 0))
			continue
		}
		for mask := 0; mask < 1<<len(conds); mask++ {
			out = append(out, verifyUnit(p, fi, &kk, conds, mask))
		}
	}
	return out
}

// verifyUnit generates the obligations of one unit: the function, for one
// value of its split expression and one truth assignment (mask) to the split
// conditions of that value.
func verifyUnit(p *Prog, fi *FuncInfo, split *int64, conds []ast.Expr, mask int) (res *UnitResult) {
	knownLits = map[*Term]*big.Int{}
	// the folding knowledge of this unit must not leak into terms built later
	// (other units, query construction)
	defer func() { knownLits = map[*Term]*big.Int{} }()
	x := newExec(p, fi)
	if split != nil {
		x.nameSuffix = fmt.Sprintf("[%d]", *split)
		if len(conds) > 0 {
			x.nameSuffix = fmt.Sprintf("[%d.%d]", *split, mask)
		}
	}
	x.extUsed = map[string]int{}
	x.zeroLinks = map[string]func(r *Term) *Term{}
	x.unfolded = map[*Term]bool{}
	res = &UnitResult{Func: fi.Name() + x.nameSuffix, File: p.relPos(fi.Decl)}
	if fi.Contract != nil {
		res.Serves = fi.Contract.Serves
	}
	defer func() {
		res.Obligations = x.obls
		res.Notes = x.notes
		res.Abstracted = x.abstract
		res.ExtUsed = x.extUsed
		res.Used = x.used
		res.Assumed = x.assumed
		if r := recover(); r != nil {
			if u, ok := r.(unsupportedErr); ok {
				res.Unsupported = u.msg
			} else {
				res.Unsupported = fmt.Sprintf("internal error: %v\n%s", r, debug.Stack())
			}
		}
	}()
	st := &State{vars: map[*types.Var]*Term{}, heaps: map[string]*Term{}, closures: map[*types.Var]*ast.FuncLit{}}
	a0 := x.fresh("alloc0", SInt)
	st.alloc = a0
	st.assume(Ge(a0, IntLit(1)))
	x.alloc0 = a0
	fr := x.pushFrame(fi)
	fr.isTop = true
	fr.allocIn = a0
	sig := fi.sig()
	// parameters
	var params []*types.Var
	if sig.Recv() != nil {
		params = append(params, sig.Recv())
	}
	for i := 0; i < sig.Params().Len(); i++ {
		params = append(params, sig.Params().At(i))
	}
	for _, pv := range params {
		val := x.unknown(st, "in."+pv.Name(), pv.Type())
		x.inputs = append(x.inputs, inputSym{Name: val.Op, Go: pv.Name(), Type: typeStr(pv.Type()), Term: val})
		x.declare(st, pv, val, fi.Decl)
	}
	if fi.Lit != nil {
		// a function literal under contract: the variables it captures from the
		// enclosing function (receiver, parameters, locals) are unknown values of
		// their types
		info := fi.Pkg.TypesInfo
		seen := map[*types.Var]bool{}
		for _, pv := range params {
			seen[pv] = true
		}
		var free []*types.Var
		ast.Inspect(fi.Lit, func(n ast.Node) bool {
			id, ok := n.(*ast.Ident)
			if !ok {
				return true
			}
			v, ok := info.Uses[id].(*types.Var)
			if !ok || v.IsField() || seen[v] || v.Pkg() == nil || v.Parent() == v.Pkg().Scope() {
				return true
			}
			if v.Pos() >= fi.Lit.Pos() && v.Pos() < fi.Lit.End() {
				return true
			}
			seen[v] = true
			free = append(free, v)
			return true
		})
		sort.Slice(free, func(i, j int) bool { return free[i].Pos() < free[j].Pos() })
		for _, pv := range free {
			val := x.unknown(st, "cap."+pv.Name(), pv.Type())
			x.inputs = append(x.inputs, inputSym{Name: val.Op, Go: pv.Name(), Type: typeStr(pv.Type()), Term: val})
			x.declare(st, pv, val, fi.Lit)
		}
	}
	// the allocator after boxing parameters is still "entry" for freshness purposes
	x.alloc0 = st.alloc
	fr.allocIn = st.alloc
	for _, rv := range fi.Results {
		x.declare(st, rv, x.zero(rv.Type()), fi.Decl)
	}
	if sig.Recv() != nil {
		if _, isPtr := sig.Recv().Type().(*types.Pointer); isPtr {
			// implicit precondition: pointer receivers are non-nil (checked at call sites)
			st.assume(Neq(x.readPlace(st, x.varPlace(st, sig.Recv())), IntLit(0)))
		}
	}
	if split != nil {
		x.spec++
		t := x.eval(st.clone(), fi.SplitExpr)
		x.spec--
		knownLits[t] = big.NewInt(*split)
		st.pc = append(st.pc, mk("=", SBool, t, IntLit(*split)))
		for i, ce := range conds {
			x.spec++
			c := x.eval(st.clone(), ce)
			x.spec--
			if mask&(1<<i) == 0 {
				c = Not(c)
			}
			st.pc = append(st.pc, c)
		}
	}
	fr.entry = st.clone()
	// preconditions
	for _, r := range fi.Requires {
		st.assume(x.evalSpec(st, r.Expr))
	}
	if fi.ReplayText != nil {
		x.replayText = x.evalSpec(st.clone(), fi.ReplayText)
		if sl, ok := x.typeOf(fi.ReplayText).Underlying().(*types.Slice); ok {
			x.replayHeap = x.heap(st, heapOfType(sl.Elem()), x.p.Reg.sortOf(sl.Elem()))
			x.replayTerms = append(x.replayTerms, slLen(x.replayText))
			for k := 0; k < replayTextMax; k++ {
				x.replayTerms = append(x.replayTerms, Select(x.replayHeap, Add(slBase(x.replayText), IntLit(int64(k)))))
			}
		}
	}
	// vacuity: the precondition must be satisfiable
	if len(fi.Requires) > 0 {
		o := &Obligation{Name: fi.Name() + x.nameSuffix + "#vacuity:requires", Kind: "vacuity", Func: fi.Name(), Goal: tFalse, ex: x, Expect: "sat", Vacuity: true, Pos: p.relPos(fi.Decl)}
		o.PC = append([]*Term(nil), st.pc...)
		o.Axioms = x.axioms[:len(x.axioms):len(x.axioms)]
		x.obls = append(x.obls, o)
	}
	// free preconditions: assumed here, not demanded from callers
	for _, r := range fi.Assumes {
		st.assume(x.evalSpec(st, r.Expr))
		x.assumed = append(x.assumed, fmt.Sprintf("%s assumes (free precondition) %s", fi.Name(), x.nodeText(r.Expr)))
	}
	if fi.HasMod {
		x.hasMod = true
		locs, el := x.evalModifies(st, fi)
		x.modHeaps = map[string]bool{}
		for _, l := range locs {
			if l.ref == nil {
				x.modHeaps[l.heap] = true
			} else {
				x.modLocs = append(x.modLocs, l)
			}
		}
		x.modEl = el
	}
	if len(fi.DynPreserves) > 0 {
		x.dynLocs, _ = x.evalLocs(st, fi.DynPreserves, true)
		for _, e := range fi.DynPreserves {
			x.assumed = append(x.assumed, fmt.Sprintf("%s assumes calls through function values leave %s unchanged", fi.Name(), x.nodeText(e)))
		}
	}
	if len(fi.Decreases) > 0 {
		x.ghostDec = x.evalDecreases(st, fi.Decreases)
	}
	end := x.execBlock(st, fi.Body().List)
	if end != nil {
		x.doReturn(end, nil, fi.Decl, true)
	}
	// reachability cover: at least one path must reach a return
	if x.topReturns == 0 && !fi.Flag("maypanic") {
		x.note("no path of %s reaches a return", fi.Name())
	}
	return res
}

// unitsFor selects the functions to verify for a property.
func unitsFor(p *Prog, prop string) []*FuncInfo {
	var out []*FuncInfo
	for _, name := range sortedKeys(p.ByName) {
		fi := p.ByName[name]
		if fi.Contract == nil || fi.Body() == nil {
			continue
		}
		if fi.Contract.ServesProp(prop) && !fi.Flag("trusted") {
			out = append(out, fi)
		}
	}
	return out
}

func summarize(obls []*Obligation) (total, discharged, trivial, failed int) {
	for _, o := range obls {
		if o.Vacuity {
			continue
		}
		total++
		switch o.Status {
		case "discharged":
			discharged++
		case "trivial":
			trivial++
			discharged++
		default:
			failed++
		}
	}
	return
}

func shortList(m map[string]int) []string {
	var out []string
	for _, k := range sortedKeys(m) {
		out = append(out, fmt.Sprintf("%s x%d", k, m[k]))
	}
	return out
}

var _ = strings.Join
