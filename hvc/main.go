package main

import (
	"encoding/json"
	"flag"
	"fmt"
	"os"
	"path/filepath"
	"runtime"
	"strings"
	"time"
)

func main() {
	if len(os.Args) < 2 {
		fmt.Fprintln(os.Stderr, "usage: hvc check|list|dump ...")
		os.Exit(2)
	}
	switch os.Args[1] {
	case "check":
		os.Exit(cmdCheck(os.Args[2:]))
	case "selftest":
		os.Exit(cmdSelftest(os.Args[2:]))
	case "rac":
		// hvc rac <stages> <text>... : run the runtime-checked build on texts
		if pp, perr := loadProg("/repo"); perr == nil {
			computeRacOldTypes(pp)
		}
		run, err := runRAC("/repo", os.Args[3:], os.Args[2], 120*time.Second)
		if err != nil {
			fmt.Println("error:", err)
		}
		if run != nil {
			for i := range os.Args[3:] {
				fmt.Printf("input %d: %v\n", i, run.ByInput[i])
			}
			if os.Getenv("HVC_RACOUT") != "" {
				fmt.Println(run.Output)
			}
		}
	case "sweep":
		// hvc sweep control|value: run the runtime-checked build over a corpus and print the distinct failures
		var c []string
		if len(os.Args) > 2 && os.Args[2] == "value" {
			c = valueCorpus()
		} else {
			c = controlCorpus()
		}
		if pp, perr := loadProg("/repo"); perr == nil {
			computeRacOldTypes(pp)
		}
		run, err := runRAC("/repo", c, "lex,parse,analyze,run", 900*time.Second)
		if err != nil {
			fmt.Println("error:", err)
		}
		if run != nil {
			seen := map[string]int{}
			for i := range c {
				for _, ln := range run.ByInput[i] {
					if strings.HasPrefix(ln, "RAC-INFO") {
						continue
					}
					if _, ok := seen[ln]; !ok {
						seen[ln] = i
						fmt.Printf("%s\n    first on input %d: %q\n", ln, i, c[i])
					}
				}
			}
			fmt.Printf("sweep: %d inputs, %d distinct failure lines\n", len(c), len(seen))
		}
	case "corpus":
		// hvc corpus control|value [n]: print corpus programs (debugging aid)
		var c []string
		if len(os.Args) > 2 && os.Args[2] == "value" {
			c = valueCorpus()
		} else {
			c = controlCorpus()
		}
		for i, t := range c {
			fmt.Printf("---- %d\n%s\n", i, t)
		}
	case "effects":
		// debugging aid: the write effects hvc assumes for calls of a function
		p, err := loadProg(envOr("HVC_ROOT", "/repo"))
		if err != nil {
			fmt.Println(err)
			os.Exit(2)
		}
		p.computeEffects()
		for _, n := range sortedKeys(p.ByName) {
			if len(os.Args) > 2 && strings.Contains(n, os.Args[2]) {
				e := p.effects(p.ByName[n])
				fmt.Printf("%s top=%v writes=%v\n", n, e.Top, sortedKeys(e.Writes))
			}
		}
		os.Exit(0)
	case "overlay":
		cmdOverlay(os.Args[2:])
	default:
		fmt.Fprintln(os.Stderr, "unknown command", os.Args[1])
		os.Exit(2)
	}
}

func cmdOverlay(args []string) {
	res, err := buildOverlay(args[0])
	if err != nil {
		fmt.Println("error:", err)
		os.Exit(1)
	}
	for f, b := range res.Files {
		fmt.Printf("==== %s\n%s\n", f, b)
	}
	for _, p := range res.Problems {
		fmt.Println("PROBLEM:", p)
	}
}

func cmdCheck(args []string) int {
	fs := flag.NewFlagSet("check", flag.ExitOnError)
	prop := fs.String("property", "all", "property id")
	tier := fs.String("tier", envOr("VERIF_TIER", "quick"), "quick|thorough")
	root := fs.String("root", "/repo", "repository root")
	only := fs.String("func", "", "verify only functions whose name contains this")
	dump := fs.String("dump", "", "directory to dump queries of failed obligations")
	verbose := fs.Bool("v", false, "verbose")
	evdir := fs.String("evidence", "/verif/evidence", "evidence directory")
	noev := fs.Bool("noevidence", false, "do not write evidence")
	fs.Parse(args)
	start := time.Now()
	p, err := loadProg(*root)
	if err != nil {
		// The contracts no longer fit the code (a function, loop, local variable or
		// import they mention changed): nothing can be proved, which is reported as
		// an undecided obligation of the property, never as a pass.
		fmt.Println("hvc: load error:", err)
		dir := filepath.Join(envOr("HVC_REPLAYDIR", "/verif/replay"), *prop)
		os.MkdirAll(dir, 0o755)
		path := filepath.Join(dir, "contracts-do-not-typecheck.json")
		data, _ := json.MarshalIndent(map[string]any{"property": *prop, "obligation": "contracts#typecheck", "reason": "the instrumented tree (code + contracts) does not load", "solver_output": err.Error()}, "", " ")
		os.WriteFile(path, data, 0o644)
		fmt.Printf("VIOLATION property=%s replay=%s obligation=contracts#typecheck reason=contracts-do-not-fit-the-code no-failing-input-found\n", *prop, path)
		return 1
	}
	p.computeEffects()
	units := unitsFor(p, *prop)
	var results []*UnitResult
	var all []*Obligation
	// the check of a property also verifies the contracts its units rely on at
	// their call sites (functions listed under other properties), transitively:
	// a change that breaks such a callee is then reported by this check too
	inSet := map[string]bool{}
	for _, fi := range units {
		inSet[fi.Name()] = true
	}
	deps := map[string]bool{}
	for i := 0; i < len(units); i++ {
		fi := units[i]
		if *only != "" && !strings.Contains(fi.Name(), *only) {
			continue
		}
		for _, r := range func() []*UnitResult {
			t0 := time.Now()
			rs := verifyUnits(p, fi)
			for _, r := range rs {
				r.GenTime = time.Since(t0).Seconds() / float64(len(rs))
			}
			return rs
		}() {
			r.Dependency = deps[fi.Name()]
			results = append(results, r)
			all = append(all, r.Obligations...)
			if *prop == "all" || os.Getenv("HVC_NODEPS") != "" {
				continue
			}
			for _, n := range sortedKeys(r.Used) {
				cf := p.ByName[n]
				if inSet[n] || cf == nil || cf.Contract == nil || cf.Body() == nil || cf.Flag("trusted") {
					continue
				}
				inSet[n] = true
				deps[n] = true
				units = append(units, cf)
			}
		}
	}
	if os.Getenv("HVC_DEPS") != "" {
		inSet := map[string]bool{}
		for _, fi := range units {
			inSet[fi.Name()] = true
		}
		ext := map[string]bool{}
		for _, r := range results {
			for n := range r.Used {
				if !inSet[n] {
					ext[n] = true
				}
			}
		}
		for _, n := range sortedKeys(ext) {
			fi := p.ByName[n]
			tag := "verified-under " + strings.Join(fi.Contract.Serves, ",")
			if fi.Flag("trusted") {
				tag = "TRUSTED"
			}
			fmt.Printf("DEP %s %s %s\n", *prop, n, tag)
		}
		if os.Getenv("HVC_DEPS") == "only" {
			return 0
		}
	}
	opts := SolveOpts{QuickT: 3, SlowT: 20, Workers: runtime.NumCPU()}
	if *tier == "thorough" {
		opts = SolveOpts{QuickT: 10, SlowT: 60, AllThree: true, Workers: runtime.NumCPU()}
	}
	solveAll(all, opts)
	rep := buildReport(p, *prop, *tier, results, time.Since(start).Seconds())
	if *verbose {
		rep.printVerbose()
	}
	if *dump != "" {
		os.MkdirAll(*dump, 0o755)
		for _, o := range all {
			if o.Status == "failed" || *verbose {
				name := strings.NewReplacer("/", "_", " ", "_", "#", "-", ":", "-").Replace(o.Name)
				if len(name) > 150 {
					name = name[:150]
				}
				os.WriteFile(filepath.Join(*dump, name+".smt2"), []byte(o.Query), 0o644)
			}
		}
	}
	code := rep.finish(*evdir, !*noev && *only == "")
	return code
}

func envOr(k, d string) string {
	if v := os.Getenv(k); v != "" {
		return v
	}
	return d
}
