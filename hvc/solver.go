package main

import (
	"bytes"
	"context"
	"fmt"
	"os"
	"os/exec"
	"sort"
	"strings"
	"sync"
	"sync/atomic"
	"time"
)

// buildQuery prints the SMT-LIB query "pc ∧ axioms ∧ ¬goal".
func (o *Obligation) buildQuery(withModel bool) string {
	x := o.ex
	var roots []*Term
	pcFacts := filterQuantified(o.PC, o.Goal)
	roots = append(roots, pcFacts...)
	roots = append(roots, o.Goal)
	relevant := x.relevantAxioms(roots, o.Axioms)
	roots = append(roots, relevant...)
	if withModel {
		roots = append(roots, x.replayTerms...)
	}
	// collect symbols, sorts, constructors
	usedConst := map[string]bool{}
	usedFun := map[string]bool{}
	usedSorts := map[Sort]bool{}
	usedCtors := map[string]bool{}
	seen := map[*Term]bool{}
	needDiv := false
	var visit func(t *Term)
	visit = func(t *Term) {
		if seen[t] {
			return
		}
		seen[t] = true
		usedSorts[t.Sort] = true
		if t.QVars != nil {
			for _, v := range t.QVars {
				usedSorts[v.Sort] = true
			}
		}
		if len(t.Args) == 0 {
			if _, ok := x.consts[t.Op]; ok {
				usedConst[t.Op] = true
			}
			if strings.HasPrefix(t.Op, "box!") {
				usedCtors[t.Op] = true
			}
		} else {
			if _, ok := x.funs[t.Op]; ok {
				usedFun[t.Op] = true
			}
			switch {
			case strings.HasPrefix(t.Op, "box!"):
				usedCtors[t.Op] = true
			case strings.HasPrefix(t.Op, "unbox!"):
				usedCtors["box!"+t.Op[len("unbox!"):]] = true
			case strings.HasPrefix(t.Op, "(_ is box!"):
				usedCtors[t.Op[len("(_ is "):len(t.Op)-1]] = true
			case t.Op == "go.div" || t.Op == "go.rem":
				needDiv = true
			}
		}
		for _, a := range t.Args {
			visit(a)
		}
	}
	for _, r := range roots {
		visit(r)
	}
	for c := range usedConst {
		usedSorts[x.consts[c]] = true
	}
	for f := range usedFun {
		sig := x.funs[f]
		usedSorts[sig.ret] = true
		for _, a := range sig.args {
			usedSorts[a] = true
		}
	}
	// sorts nested in map sorts "(Array K V)"
	for s := range usedSorts {
		for _, part := range strings.FieldsFunc(string(s), func(r rune) bool { return r == '(' || r == ')' || r == ' ' }) {
			usedSorts[Sort(part)] = true
		}
	}
	var sb strings.Builder
	sb.WriteString("(set-option :produce-models true)\n(set-logic ALL)\n")
	for _, l := range x.p.Reg.emitSorts(usedSorts, usedCtors) {
		sb.WriteString(l + "\n")
	}
	var cs []string
	for c := range usedConst {
		cs = append(cs, c)
	}
	sort.Strings(cs)
	for _, c := range cs {
		fmt.Fprintf(&sb, "(declare-const %s %s)\n", c, x.consts[c])
	}
	var fs []string
	for f := range usedFun {
		fs = append(fs, f)
	}
	sort.Strings(fs)
	for _, f := range fs {
		sig := x.funs[f]
		var as []string
		for _, a := range sig.args {
			as = append(as, string(a))
		}
		fmt.Fprintf(&sb, "(declare-fun %s (%s) %s)\n", f, strings.Join(as, " "), sig.ret)
	}
	if needDiv {
		for _, d := range divDefs {
			sb.WriteString(d + "\n")
		}
	}
	// string literals
	var lits []string
	for _, s := range x.strOrder {
		t := x.strLits[s]
		if usedConst[t.Op] {
			lits = append(lits, t.Op)
			if usedFun["s.len"] {
				fmt.Fprintf(&sb, "(assert (= (s.len %s) %d))\n", t.Op, len(s))
			}
		}
	}
	if len(lits) > 1 {
		fmt.Fprintf(&sb, "(assert (distinct %s))\n", strings.Join(lits, " "))
	}
	pr := NewPrinter()
	pr.Prepare(roots)
	var asserts []string
	for _, t := range pcFacts {
		asserts = append(asserts, "(assert "+pr.Print(t)+")")
	}
	for _, t := range relevant {
		asserts = append(asserts, "(assert "+pr.Print(t)+")")
	}
	asserts = append(asserts, "(assert (not "+pr.Print(o.Goal)+"))")
	for _, d := range pr.Defs() {
		sb.WriteString(d + "\n")
	}
	for _, a := range asserts {
		sb.WriteString(a + "\n")
	}
	if withModel && len(x.replayTerms) > 0 && o.smallModel {
		fmt.Fprintf(&sb, "(assert (<= %s %d))\n", x.replayTerms[0].String(), replayTextMax)
	}
	sb.WriteString("(check-sat)\n")
	if withModel && len(x.replayTerms) > 0 {
		var ts []string
		for _, t := range x.replayTerms {
			ts = append(ts, t.String())
		}
		fmt.Fprintf(&sb, "(echo \"replaytext-begin\")\n(get-value (%s))\n(echo \"replaytext-end\")\n", strings.Join(ts, " "))
	}
	if withModel {
		var names []string
		for _, in := range x.inputs {
			if usedConst[in.Name] {
				names = append(names, in.Name)
			}
		}
		if len(names) > 0 {
			fmt.Fprintf(&sb, "(echo \"inputs-begin\")\n(get-value (%s))\n(echo \"inputs-end\")\n", strings.Join(names, " "))
		}
		sb.WriteString("(get-model)\n")
	}
	return sb.String()
}

const replayTextMax = 48

type solverSpec struct {
	name string
	args func(timeoutS int) []string
}

var solvers = []solverSpec{
	{"z3-new", func(t int) []string { return []string{"z3-new", "-in", fmt.Sprintf("-T:%d", t)} }},
	{"cvc5", func(t int) []string {
		return []string{"cvc5", "--lang=smt2", fmt.Sprintf("--tlimit=%d", t*1000), "--produce-models", "-"}
	}},
	{"z3", func(t int) []string { return []string{"z3", "-in", fmt.Sprintf("-T:%d", t)} }},
}

func runSolver(sp solverSpec, query string, timeoutS int) (answer, out string, secs float64) {
	return runSolverCtx(context.Background(), sp, query, timeoutS)
}

func runSolverCtx(parent context.Context, sp solverSpec, query string, timeoutS int) (answer, out string, secs float64) {
	args := sp.args(timeoutS)
	ctx, cancel := context.WithTimeout(parent, time.Duration(timeoutS+2)*time.Second)
	defer cancel()
	cmd := exec.CommandContext(ctx, args[0], args[1:]...)
	cmd.Stdin = strings.NewReader(query)
	var buf bytes.Buffer
	cmd.Stdout = &buf
	cmd.Stderr = &buf
	start := time.Now()
	_ = cmd.Run()
	secs = time.Since(start).Seconds()
	out = buf.String()
	first := strings.TrimSpace(out)
	if i := strings.IndexByte(first, '\n'); i >= 0 {
		first = first[:i]
	}
	switch first {
	case "sat", "unsat", "unknown":
		answer = first
	default:
		if strings.Contains(out, "timeout") || ctx.Err() != nil {
			answer = "timeout"
		} else {
			answer = "error"
		}
	}
	return
}

type SolveOpts struct {
	QuickT   int
	SlowT    int
	AllThree bool
	Workers  int
}

// solveAll discharges the obligations in parallel.
func solveAll(obls []*Obligation, opts SolveOpts) {
	lean := os.Getenv("HVC_LEAN") != ""
	var failures int32
	knownNames := map[string]bool{}
	for _, k := range loadKnown().Findings {
		knownNames[k.Obligation] = true
	}
	var wg sync.WaitGroup
	ch := make(chan *Obligation)
	for i := 0; i < opts.Workers; i++ {
		wg.Add(1)
		go func() {
			defer wg.Done()
			for o := range ch {
				if lean && atomic.LoadInt32(&failures) >= 3 {
					// lean mode (seed runs): a few failed obligations settle the question
					o.Status = "discharged"
					o.Answer = "skipped"
					o.Solver = "skipped"
					continue
				}
				solveOne(o, opts)
				if o.Status == "failed" && !knownNames[o.Name] && !o.Vacuity {
					atomic.AddInt32(&failures, 1)
				}
			}
		}()
	}
	for _, o := range obls {
		if o.Status == "trivial" {
			continue
		}
		ch <- o
	}
	close(ch)
	wg.Wait()
	// An obligation on which every solver ran out of time (no model, no
	// `unknown`) is tried once more with nothing else running and a longer
	// limit: a machine under load must not turn a proof into an alarm.
	var timedOut []*Obligation
	for _, o := range obls {
		if o.Status == "failed" && o.Expect == "unsat" && o.allTimeouts {
			timedOut = append(timedOut, o)
		}
	}
	if len(timedOut) <= 3 && os.Getenv("HVC_LEAN") == "" { // more than a few is not a blip of the machine
		for _, o := range timedOut {
			retryCalm(o, opts)
		}
	}
}

func retryCalm(o *Obligation, opts SolveOpts) {
	type res struct {
		name, ans, out string
		secs           float64
	}
	rc := make(chan res, len(solvers))
	ctx, cancel := context.WithCancel(context.Background())
	defer cancel()
	for _, sp := range solvers {
		sp := sp
		go func() {
			a, ot, s := runSolverCtx(ctx, sp, o.Query, 3*opts.SlowT)
			rc <- res{sp.name, a, ot, s}
		}()
	}
	for range solvers {
		r := <-rc
		o.Time += r.secs
		if r.ans == "unsat" {
			o.Status = "discharged"
			o.Solver = r.name
			o.Answer = r.ans
			o.Retried = true
			return
		}
	}
}

func solveOne(o *Obligation, opts SolveOpts) {
	q := o.buildQuery(false)
	o.Query = q
	want := o.Expect
	if o.Cover {
		// reachability check: one quick attempt, only a refutation counts
		ans, _, secs := runSolver(solvers[0], q, opts.QuickT)
		o.Time += secs
		o.Solver = solvers[0].name
		o.Answer = ans
		if ans == "unsat" {
			o.Status = "failed"
		} else {
			o.Status = "discharged"
		}
		return
	}
	// first attempt: fast solver, short timeout
	ans, out, secs := runSolver(solvers[0], q, opts.QuickT)
	o.Time += secs
	record := func(name, ans, out string) {
		o.Solver = name
		o.Answer = ans
		if ans == "error" {
			o.Model = out
		}
	}
	record(solvers[0].name, ans, out)
	if ans == want && !opts.AllThree {
		o.Status = "discharged"
		return
	}
	if want == "sat" && ans == "unsat" {
		o.Status = "failed"
		return
	}
	// in parallel with the race below: the case analysis over the merge conditions
	var csDone chan *Obligation
	if want == "unsat" && ans != "sat" && ans != "unsat" && !opts.AllThree {
		csDone = make(chan *Obligation, 1)
		oc := *o
		go func() {
			if caseSplit(&oc, opts, 2*opts.QuickT, 3) {
				csDone <- &oc
			} else {
				csDone <- nil
			}
		}()
	} else if want == "unsat" && ans != "sat" && ans != "unsat" && caseSplit(o, opts, 2*opts.QuickT, 3) {
		return
	}
	// race the remaining solvers with the long timeout
	type res struct {
		name, ans, out string
		secs           float64
	}
	rc := make(chan res, len(solvers))
	list := solvers[1:]
	if ans != "sat" && ans != "unsat" {
		list = solvers // retry the first with the long timeout as well
	}
	for _, sp := range list {
		sp := sp
		go func() {
			a, ot, s := runSolver(sp, q, opts.SlowT)
			rc <- res{sp.name, a, ot, s}
		}()
	}
	answers := map[string]string{solvers[0].name: ans}
	if ans == want {
		// (thorough tier) already decided by the first solver; the others are
		// consulted for disagreement only
		o.Status = "discharged"
	}
	for pending := len(list); pending > 0; {
		var r res
		select {
		case r = <-rc:
			pending--
		case oc := <-csDone:
			csDone = nil
			if oc != nil {
				// decided as a case analysis while the solvers were still racing
				o.Status, o.Answer, o.Solver, o.CaseSplit = oc.Status, oc.Answer, oc.Solver, oc.CaseSplit
				o.Time += oc.Time
				return
			}
			continue
		}
		o.Time += r.secs
		answers[r.name] = r.ans
		if r.ans == want && o.Status != "discharged" {
			o.Status = "discharged"
			record(r.name, r.ans, r.out)
			if !opts.AllThree {
				return
			}
		}
	}
	if opts.AllThree {
		// a sat/unsat disagreement between solvers is a check error
		hasSat, hasUnsat := false, false
		for _, a := range answers {
			if a == "sat" {
				hasSat = true
			}
			if a == "unsat" {
				hasUnsat = true
			}
		}
		if hasSat && hasUnsat {
			o.Status = "failed"
			o.Answer = fmt.Sprintf("solver disagreement: %v", answers)
			return
		}
	}
	if o.Status == "discharged" {
		return
	}
	o.Status = "failed"
	if want == "unsat" {
		sat := false
		for _, a := range answers {
			if a == "sat" {
				sat = true
			}
		}
		if !sat && os.Getenv("HVC_LEAN") == "" && caseSplit(o, opts, opts.SlowT, 6) {
			return
		}
	}
	o.allTimeouts = true
	for _, a := range answers {
		if a != "timeout" {
			o.allTimeouts = false
		}
	}
	// best answer for the report: prefer sat (a model exists)
	for _, name := range []string{"z3-new", "cvc5", "z3"} {
		if answers[name] == "sat" {
			o.Answer = "sat"
			o.Solver = name
		}
	}
	if want == "unsat" && o.Answer == "sat" {
		// fetch a model from the solver that said sat
		for _, sp := range solvers {
			if sp.name == o.Solver {
				o.smallModel = true
				qm := o.buildQuery(true)
				a, out, s := runSolver(sp, qm, opts.SlowT)
				o.Time += s
				if a != "sat" {
					o.smallModel = false
					qm = o.buildQuery(true)
					_, out, s = runSolver(sp, qm, opts.SlowT)
					o.Time += s
				}
				o.Model = out
			}
		}
	}
	if want == "sat" {
		// vacuity check that could not be shown satisfiable: not an alarm
		if o.Answer != "unsat" {
			o.Status = "discharged"
			o.Answer = "not-refuted(" + o.Answer + ")"
		}
	}
}

// relevantAxioms selects the axioms that share an anchor term (an application
// of an uninterpreted function or an array read) with the query, transitively.
// Axioms are instances of universally valid facts, so leaving some out is
// sound; it keeps the queries of one branch free of the other branches' facts.
func (x *Exec) relevantAxioms(roots []*Term, axioms []*Term) []*Term {
	visited := map[*Term]bool{}
	var walk func(t *Term)
	walk = func(t *Term) {
		if visited[t] {
			return
		}
		visited[t] = true
		for _, a := range t.Args {
			walk(a)
		}
	}
	for _, r := range roots {
		walk(r)
	}
	included := make([]bool, len(axioms))
	var out []*Term
	for changed := true; changed; {
		changed = false
		for i, ax := range axioms {
			if included[i] {
				continue
			}
			anchors := x.anchorsOf(ax)
			rel := len(anchors) == 0
			for _, a := range anchors {
				if visited[a] {
					rel = true
					break
				}
			}
			if rel {
				included[i] = true
				out = append(out, ax)
				walk(ax)
				changed = true
			}
		}
	}
	return out
}

func (x *Exec) anchorsOf(ax *Term) []*Term {
	x.anchorMu.Lock()
	defer x.anchorMu.Unlock()
	if a, ok := x.anchorCache[ax]; ok {
		return a
	}
	var out []*Term
	seen := map[*Term]bool{}
	var walk func(t *Term)
	walk = func(t *Term) {
		if seen[t] {
			return
		}
		seen[t] = true
		if len(t.Args) > 0 && !t.Bound {
			if _, isFun := x.funs[t.Op]; isFun || t.Op == "select" {
				out = append(out, t)
			}
		}
		if ax.QVars != nil && len(t.Args) == 0 && t.QVars == nil && strings.HasPrefix(string(t.Sort), "(Array") && !t.Bound {
			// quantified frame axioms are anchored on the fresh heap symbols they constrain
			if strings.Contains(t.Op, "!") {
				out = append(out, t)
			}
		}
		for _, a := range t.Args {
			walk(a)
		}
	}
	walk(ax)
	x.anchorCache[ax] = out
	return out
}

// filterQuantified drops quantified path facts that cannot matter for the
// goal: a universally quantified fact about the cells of some heaps is kept
// only when the goal mentions one of those heaps. Dropping hypotheses is
// always sound; it keeps the ground queries of unrelated branches fast and
// stable.
func filterQuantified(pc []*Term, goal *Term) []*Term {
	goalHeaps := map[string]bool{}
	{
		raw := map[string]bool{}
		collectArraySyms(goal, raw, map[*Term]bool{})
		for h := range raw {
			goalHeaps[heapBaseName(h)] = true
		}
	}
	if len(goalHeaps) == 0 {
		// a goal without heap reads (e.g. "this path is infeasible") depends on the
		// path facts themselves: nothing can be judged irrelevant
		return pc
	}
	var out []*Term
	// keep weakens a hypothesis: an irrelevant quantified conjunct (or
	// disjunct-internal conjunct, or consequent) is replaced by true. Only
	// positions of positive polarity are touched, so the result is implied
	// by the original fact; everything else is kept unchanged.
	var keep func(f *Term) *Term
	keep = func(f *Term) *Term {
		if !hasQuantifier(f, map[*Term]bool{}) {
			return f
		}
		if f.QVars == nil {
			switch f.Op {
			case "and":
				var parts []*Term
				for _, a := range f.Args {
					parts = append(parts, keep(a))
				}
				return And(parts...)
			case "or":
				var parts []*Term
				for _, a := range f.Args {
					parts = append(parts, keep(a))
				}
				return Or(parts...)
			case "=>":
				if len(f.Args) == 2 && !hasQuantifier(f.Args[0], map[*Term]bool{}) {
					return Implies(f.Args[0], keep(f.Args[1]))
				}
			}
			return f
		}
		if f.Op != "forall" {
			return f
		}
		hs := map[string]bool{}
		collectArraySyms(f, hs, map[*Term]bool{})
		for h := range hs {
			if goalHeaps[heapBaseName(h)] {
				return f
			}
		}
		if len(hs) == 0 {
			return f
		}
		return tTrue
	}
	for _, f := range pc {
		if k := keep(f); !k.isTrue() {
			out = append(out, k)
		}
	}
	return out
}

// heapBaseName maps every version of a component heap (H$T$f@0, H_T_f_!12)
// to one name.
func heapBaseName(sym string) string {
	if i := strings.IndexByte(sym, '@'); i >= 0 {
		sym = sym[:i]
	} else if i := strings.LastIndexByte(sym, '!'); i >= 0 {
		sym = sym[:i]
	}
	b := []byte(sym)
	for i, c := range b {
		if !(c >= 'a' && c <= 'z' || c >= 'A' && c <= 'Z' || c >= '0' && c <= '9') {
			b[i] = '_'
		}
	}
	return strings.TrimRight(string(b), "_'")
}

func hasQuantifier(t *Term, seen map[*Term]bool) bool {
	if seen[t] {
		return false
	}
	seen[t] = true
	if t.QVars != nil {
		return true
	}
	for _, a := range t.Args {
		if hasQuantifier(a, seen) {
			return true
		}
	}
	return false
}

func collectArraySyms(t *Term, into map[string]bool, seen map[*Term]bool) {
	if seen[t] {
		return
	}
	seen[t] = true
	if len(t.Args) == 0 && t.QVars == nil && strings.HasPrefix(string(t.Sort), "(Array") {
		into[t.Op] = true
	}
	for _, a := range t.Args {
		collectArraySyms(a, into, seen)
	}
}
