package main

import (
	"fmt"
	"os"
	"os/exec"
	"path/filepath"
	"sort"
	"strings"
	"sync"
)

// selftest: the must-fail corpus. Every mutant is a small edit of /repo that
// breaks a property; applied to a scratch copy it must make the named
// obligation fail. A mutant that still verifies means the contracts (or hvc)
// have a hole.
func cmdSelftest(args []string) int {
	root := "/repo"
	dir := "/verif/selftest/mutants"
	filter := ""
	if len(args) > 0 {
		filter = args[0]
	}
	files, _ := filepath.Glob(filepath.Join(dir, "*.diff"))
	sort.Strings(files)
	type result struct {
		name, prop, expect, status, detail string
	}
	results := make([]result, len(files))
	var wg sync.WaitGroup
	sem := make(chan bool, 4)
	for i, f := range files {
		if filter != "" {
			match := false
			for _, alt := range strings.Split(filter, ",") {
				if strings.Contains(f, alt) {
					match = true
				}
			}
			if !match {
				continue
			}
		}
		wg.Add(1)
		go func(i int, f string) {
			defer wg.Done()
			sem <- true
			defer func() { <-sem }()
			data, _ := os.ReadFile(f)
			r := result{name: filepath.Base(f)}
			for _, ln := range strings.Split(string(data), "\n") {
				if strings.HasPrefix(ln, "# property:") {
					r.prop = strings.TrimSpace(strings.TrimPrefix(ln, "# property:"))
				}
				if strings.HasPrefix(ln, "# expect:") {
					r.expect = strings.TrimSpace(strings.TrimPrefix(ln, "# expect:"))
				}
			}
			scratch, err := os.MkdirTemp(scratchBase(), "hvc-mut-")
			if err != nil {
				r.status = "ERROR"
				r.detail = err.Error()
				results[i] = r
				return
			}
			defer os.RemoveAll(scratch)
			cp := exec.Command("sh", "-c", fmt.Sprintf("cd %s && tar cf - --exclude=.git . | (cd %s && tar xf -)", root, scratch))
			if out, err := cp.CombinedOutput(); err != nil {
				r.status, r.detail = "ERROR", string(out)
				results[i] = r
				return
			}
			ap := exec.Command("git", "apply", "--whitespace=nowarn", f)
			ap.Dir = scratch
			if out, err := ap.CombinedOutput(); err != nil {
				r.status, r.detail = "ERROR", "patch does not apply: "+string(out)
				results[i] = r
				return
			}
			self, _ := os.Executable()
			ck := exec.Command(self, "check", "-property", r.prop, "-root", scratch, "-noevidence")
			ck.Env = append(os.Environ(), "HVC_NOREPLAY=1", "HVC_REPLAYDIR="+filepath.Join(scratch, ".replay"))
			out, _ := ck.CombinedOutput()
			found := false
			var viols []string
			for _, ln := range strings.Split(string(out), "\n") {
				if strings.HasPrefix(ln, "VIOLATION") {
					viols = append(viols, ln)
					all := true
					for _, frag := range strings.Split(r.expect, " && ") {
						if !strings.Contains(ln, strings.TrimSpace(frag)) {
							all = false
						}
					}
					if all {
						found = true
					}
				}
			}
			switch {
			case found:
				r.status = "caught"
			case len(viols) > 0:
				r.status = "caught-other"
				r.detail = viols[0]
			default:
				r.status = "MISSED"
				r.detail = tail(string(out), 300)
			}
			results[i] = r
		}(i, f)
	}
	wg.Wait()
	missed := 0
	for _, r := range results {
		if r.name == "" {
			continue
		}
		fmt.Printf("%-14s %-4s %-40s expect=%s %s\n", r.status, r.prop, r.name, r.expect, firstLine(r.detail))
		if r.status == "MISSED" || r.status == "ERROR" {
			missed++
		}
	}
	ran := 0
	for _, r := range results {
		if r.name != "" {
			ran++
		}
	}
	if ran == 0 {
		fmt.Println("selftest: no mutant matched the filter")
		return 1
	}
	if missed > 0 {
		fmt.Printf("selftest: %d mutant(s) not caught\n", missed)
		return 1
	}
	fmt.Println("selftest: all mutants caught")
	return 0
}

func firstLine(s string) string {
	if i := strings.IndexByte(s, '\n'); i >= 0 {
		s = s[:i]
	}
	if len(s) > 200 {
		s = s[:200]
	}
	return s
}
