package main

import (
	"fmt"
	"go/types"
	"math/big"
	"sort"
	"strings"
)

type FieldSort struct {
	Name string
	Acc  string // accessor symbol
	Sort Sort
	Type types.Type
}

type StructSort struct {
	Sort   Sort
	Ctor   string
	Fields []FieldSort
	Type   types.Type
}

type IfaceCtor struct {
	Name    string // box!<type>
	Acc     string // unbox!<type>
	Payload Sort
	Type    types.Type
}

// TypeReg maps Go types to SMT sorts and remembers the datatypes needed.
type TypeReg struct {
	structs map[Sort]*StructSort
	byType  map[string]Sort // types.TypeString -> sort
	ctors   map[string]*IfaceCtor
	ctorOf  map[string]*IfaceCtor // type string -> ctor
	opaque  map[Sort]bool
	anon    int
}

func NewTypeReg() *TypeReg {
	return &TypeReg{structs: map[Sort]*StructSort{}, byType: map[string]Sort{}, ctors: map[string]*IfaceCtor{}, ctorOf: map[string]*IfaceCtor{}, opaque: map[Sort]bool{}}
}

func sanitize(s string) string {
	var sb strings.Builder
	for _, r := range s {
		switch {
		case r >= 'a' && r <= 'z', r >= 'A' && r <= 'Z', r >= '0' && r <= '9', r == '_', r == '.':
			sb.WriteRune(r)
		case r == '*':
			sb.WriteString("ptr.")
		case r == '/':
			sb.WriteString(".")
		case r == '[' || r == ']':
			sb.WriteString("$")
		case r == ' ':
		default:
			sb.WriteString("_")
		}
	}
	return sb.String()
}

func typeStr(t types.Type) string {
	return types.TypeString(t, func(p *types.Package) string {
		// shorten the module prefix
		path := p.Path()
		path = strings.TrimPrefix(path, "github.com/smarthome-go/homescript/v3/homescript/")
		path = strings.TrimPrefix(path, "github.com/smarthome-go/homescript/v3/")
		return path
	})
}

func (r *TypeReg) sortOf(t types.Type) Sort {
	key := typeStr(t)
	if s, ok := r.byType[key]; ok {
		return s
	}
	s := r.sortOf1(t, key)
	r.byType[key] = s
	return s
}

func (r *TypeReg) sortOf1(t types.Type, key string) Sort {
	switch u := t.Underlying().(type) {
	case *types.Basic:
		switch {
		case u.Info()&types.IsBoolean != 0:
			return SBool
		case u.Info()&types.IsInteger != 0:
			return SInt
		case u.Info()&types.IsFloat != 0:
			return SFloat
		case u.Info()&types.IsString != 0:
			return SStr
		case u.Kind() == types.UnsafePointer:
			return SInt
		case u.Kind() == types.UntypedNil:
			return SInt
		}
	case *types.Pointer, *types.Map, *types.Chan, *types.Signature:
		return SInt
	case *types.Slice:
		return SSlice
	case *types.Interface:
		return SIface
	case *types.Struct:
		name := "S!" + sanitize(key)
		if _, isNamed := t.(*types.Named); !isNamed {
			if _, isAlias := t.(*types.Alias); !isAlias {
				r.anon++
				name = fmt.Sprintf("S!anon%d", r.anon)
			}
		}
		srt := Sort(name)
		ss := &StructSort{Sort: srt, Ctor: "mk!" + name[2:], Type: t}
		r.structs[srt] = ss
		r.byType[key] = srt // allow recursion through fields
		for i := 0; i < u.NumFields(); i++ {
			f := u.Field(i)
			fs := r.sortOf(f.Type())
			ss.Fields = append(ss.Fields, FieldSort{Name: f.Name(), Acc: fmt.Sprintf("%s!%s", name[2:], f.Name()), Sort: fs, Type: f.Type()})
		}
		return srt
	case *types.Array:
		// small fixed-size arrays are records with one field per element
		if u.Len() <= 16 {
			name := "A!" + sanitize(key)
			srt := Sort(name)
			ss := &StructSort{Sort: srt, Ctor: "mk!" + name[2:], Type: t}
			r.structs[srt] = ss
			r.byType[key] = srt
			es := r.sortOf(u.Elem())
			for i := int64(0); i < u.Len(); i++ {
				ss.Fields = append(ss.Fields, FieldSort{Name: fmt.Sprintf("e%d", i), Acc: fmt.Sprintf("%s!e%d", name[2:], i), Sort: es, Type: u.Elem()})
			}
			return srt
		}
	case *types.Tuple, *types.TypeParam:
	}
	srt := Sort("U!" + sanitize(key))
	r.opaque[srt] = true
	return srt
}

func (r *TypeReg) structOf(t types.Type) *StructSort {
	s := r.sortOf(t)
	return r.structs[s]
}

func (ss *StructSort) field(name string) (*FieldSort, int) {
	for i := range ss.Fields {
		if ss.Fields[i].Name == name {
			return &ss.Fields[i], i
		}
	}
	return nil, -1
}

func (r *TypeReg) ctorFor(t types.Type) *IfaceCtor {
	key := typeStr(t)
	if c, ok := r.ctorOf[key]; ok {
		return c
	}
	n := sanitize(key)
	c := &IfaceCtor{Name: "box!" + n, Acc: "unbox!" + n, Payload: r.sortOf(t), Type: t}
	r.ctorOf[key] = c
	r.ctors[c.Name] = c
	return c
}

func mkStruct(ss *StructSort, vals []*Term) *Term {
	if len(ss.Fields) == 0 {
		return Sym(ss.Ctor, ss.Sort)
	}
	return mk(ss.Ctor, ss.Sort, vals...)
}

func getField(ss *StructSort, v *Term, i int) *Term {
	if v.Op == ss.Ctor && len(v.Args) == len(ss.Fields) {
		return v.Args[i]
	}
	return mk(ss.Fields[i].Acc, ss.Fields[i].Sort, v)
}

func setField(ss *StructSort, v *Term, i int, nv *Term) *Term {
	vals := make([]*Term, len(ss.Fields))
	for j := range ss.Fields {
		if j == i {
			vals[j] = nv
		} else {
			vals[j] = getField(ss, v, j)
		}
	}
	return mkStruct(ss, vals)
}

// slices
func mkSlice(base, ln, cp *Term) *Term { return mk("mk!Slice", SSlice, base, ln, cp) }
func slBase(s *Term) *Term {
	if s.Op == "mk!Slice" {
		return s.Args[0]
	}
	return mk("sl!base", SInt, s)
}
func slLen(s *Term) *Term {
	if s.Op == "mk!Slice" {
		return s.Args[1]
	}
	return mk("sl!len", SInt, s)
}
func slCap(s *Term) *Term {
	if s.Op == "mk!Slice" {
		return s.Args[2]
	}
	return mk("sl!cap", SInt, s)
}

var nilSlice = mkSlice(IntLit(0), IntLit(0), IntLit(0))
var ifaceNil = Sym("inil", SIface)

func isBox(c *IfaceCtor, v *Term) *Term {
	if v.Op == c.Name {
		return tTrue
	}
	if strings.HasPrefix(v.Op, "box!") || v.Op == "inil" {
		return tFalse
	}
	return mk("(_ is "+c.Name+")", SBool, v)
}

func box(c *IfaceCtor, v *Term) *Term { return mk(c.Name, SIface, v) }
func unbox(c *IfaceCtor, v *Term) *Term {
	if v.Op == c.Name {
		return v.Args[0]
	}
	return mk(c.Acc, c.Payload, v)
}

// integer ranges
func intRange(b *types.Basic) (lo, hi *big.Int, ok bool) {
	bits := 64
	signed := true
	switch b.Kind() {
	case types.Int8:
		bits = 8
	case types.Int16:
		bits = 16
	case types.Int32, types.UntypedRune:
		bits = 32
	case types.Int64, types.Int, types.UntypedInt:
		bits = 64
	case types.Uint8:
		bits, signed = 8, false
	case types.Uint16:
		bits, signed = 16, false
	case types.Uint32:
		bits, signed = 32, false
	case types.Uint64, types.Uint, types.Uintptr:
		bits, signed = 64, false
	default:
		return nil, nil, false
	}
	one := big.NewInt(1)
	if signed {
		hi = new(big.Int).Sub(new(big.Int).Lsh(one, uint(bits-1)), one)
		lo = new(big.Int).Neg(new(big.Int).Lsh(one, uint(bits-1)))
	} else {
		lo = big.NewInt(0)
		hi = new(big.Int).Sub(new(big.Int).Lsh(one, uint(bits)), one)
	}
	return lo, hi, true
}

func basicOf(t types.Type) *types.Basic {
	b, _ := t.Underlying().(*types.Basic)
	return b
}

func isIntType(t types.Type) bool {
	b := basicOf(t)
	return b != nil && b.Info()&types.IsInteger != 0
}
func isFloatType(t types.Type) bool {
	b := basicOf(t)
	return b != nil && b.Info()&types.IsFloat != 0
}
func isStringType(t types.Type) bool {
	b := basicOf(t)
	return b != nil && b.Info()&types.IsString != 0
}
func isBoolType(t types.Type) bool {
	b := basicOf(t)
	return b != nil && b.Info()&types.IsBoolean != 0
}
func isIfaceType(t types.Type) bool {
	_, ok := t.Underlying().(*types.Interface)
	if _, tp := t.(*types.TypeParam); tp {
		return false
	}
	return ok
}

// emitSorts prints the datatype declarations needed for the given sorts and
// constructor names.
func (r *TypeReg) emitSorts(usedSorts map[Sort]bool, usedCtors map[string]bool) []string {
	var out []string
	out = append(out, "(declare-sort Str 0)")
	out = append(out, "(declare-datatypes ((Slice 0)) (((mk!Slice (sl!base Int) (sl!len Int) (sl!cap Int)))))")
	// closure of struct sorts through fields
	need := map[Sort]bool{}
	needIface := false
	var visit func(s Sort)
	visit = func(s Sort) {
		str := string(s)
		if strings.HasPrefix(str, "(Array Int ") {
			visit(Sort(str[len("(Array Int ") : len(str)-1]))
			return
		}
		if s == SIface {
			needIface = true
			return
		}
		if r.opaque[s] {
			need[s] = true
			return
		}
		if ss, ok := r.structs[s]; ok {
			if need[s] {
				return
			}
			need[s] = true
			for _, f := range ss.Fields {
				visit(f.Sort)
			}
		}
	}
	for s := range usedSorts {
		visit(s)
	}
	var ctors []*IfaceCtor
	for _, name := range sortedKeys(r.ctors) {
		if usedCtors[name] {
			c := r.ctors[name]
			ctors = append(ctors, c)
			needIface = true
			visit(c.Payload)
		}
	}
	var names []string
	for s := range need {
		names = append(names, string(s))
	}
	sort.Strings(names)
	for _, n := range names {
		if r.opaque[Sort(n)] {
			out = append(out, fmt.Sprintf("(declare-sort %s 0)", n))
		}
	}
	var decl, defs []string
	for _, n := range names {
		ss := r.structs[Sort(n)]
		if ss == nil {
			continue
		}
		decl = append(decl, fmt.Sprintf("(%s 0)", n))
		var sb strings.Builder
		sb.WriteString("((" + ss.Ctor)
		for _, f := range ss.Fields {
			fmt.Fprintf(&sb, " (%s %s)", f.Acc, f.Sort)
		}
		sb.WriteString("))")
		defs = append(defs, sb.String())
	}
	if needIface {
		decl = append(decl, "(Iface 0)")
		var sb strings.Builder
		sb.WriteString("((inil) (box!other (other!id Int))")
		for _, c := range ctors {
			fmt.Fprintf(&sb, " (%s (%s %s))", c.Name, c.Acc, c.Payload)
		}
		sb.WriteString(")")
		defs = append(defs, sb.String())
	}
	if len(decl) > 0 {
		out = append(out, fmt.Sprintf("(declare-datatypes (%s) (%s))", strings.Join(decl, " "), strings.Join(defs, " ")))
	}
	return out
}

// aggFieldType: the type of component i of a struct or small array type.
func aggFieldType(t types.Type, i int) types.Type {
	switch u := t.Underlying().(type) {
	case *types.Struct:
		return u.Field(i).Type()
	case *types.Array:
		return u.Elem()
	}
	panic("aggFieldType on " + t.String())
}
