package main

import (
	"fmt"
	"go/ast"
	"go/constant"
	"go/token"
	"go/types"
	"math"
	"math/big"
	"os"
	"strings"
)

func floatLit(f float64) *Term {
	bits := math.Float64bits(f)
	sign := bits >> 63
	exp := (bits >> 52) & 0x7ff
	man := bits & ((1 << 52) - 1)
	return mk(fmt.Sprintf("(fp #b%d #b%011b #x%013x)", sign, exp, man), SFloat)
}

func (x *Exec) constTerm(v constant.Value, t types.Type) *Term {
	if t == nil {
		t = types.Typ[types.Int]
	}
	switch u := t.Underlying().(type) {
	case *types.Basic:
		switch {
		case u.Info()&types.IsBoolean != 0:
			return BoolLit(constant.BoolVal(v))
		case u.Info()&types.IsInteger != 0:
			iv := constant.ToInt(v)
			if iv.Kind() != constant.Int {
				return x.fresh("const", SInt)
			}
			if n, ok := constant.Int64Val(iv); ok {
				return IntLit(n)
			}
			b, _ := new(big.Int).SetString(iv.ExactString(), 10)
			return BigLit(b)
		case u.Info()&types.IsFloat != 0:
			f, _ := constant.Float64Val(constant.ToFloat(v))
			return floatLit(f)
		case u.Info()&types.IsString != 0:
			return x.strLit(constant.StringVal(v))
		}
	case *types.Interface:
		// constant converted to interface: box by default type
		switch v.Kind() {
		case constant.String:
			return box(x.p.Reg.ctorFor(types.Typ[types.String]), x.strLit(constant.StringVal(v)))
		case constant.Int:
			return box(x.p.Reg.ctorFor(types.Typ[types.Int]), x.constTerm(v, types.Typ[types.Int]))
		case constant.Bool:
			return box(x.p.Reg.ctorFor(types.Typ[types.Bool]), BoolLit(constant.BoolVal(v)))
		case constant.Float:
			return box(x.p.Reg.ctorFor(types.Typ[types.Float64]), x.constTerm(v, types.Typ[types.Float64]))
		}
	}
	return x.fresh("const", x.p.Reg.sortOf(t))
}

func (x *Exec) typeOf(e ast.Expr) types.Type {
	if tv, ok := x.info().Types[e]; ok && tv.Type != nil {
		return tv.Type
	}
	if id, ok := e.(*ast.Ident); ok {
		if o := x.info().ObjectOf(id); o != nil {
			return o.Type()
		}
	}
	x.unsupported(e, "no type for expression %s", x.nodeText(e))
	return nil
}

func defaultType(t types.Type) types.Type {
	if b, ok := t.(*types.Basic); ok && b.Info()&types.IsUntyped != 0 {
		return types.Default(t)
	}
	return t
}

// convert a value of static type from to type to (implicit or explicit conversion
// between identical underlying types and to interfaces).
func (x *Exec) convert(st *State, v *Term, from, to types.Type) *Term {
	if to == nil || from == nil {
		return v
	}
	if _, tp := to.(*types.TypeParam); tp {
		return v
	}
	if isIfaceType(to) && !isIfaceType(from) {
		from = defaultType(from)
		if b := basicOf(from); b != nil && b.Kind() == types.UntypedNil {
			return ifaceNil
		}
		if v.Sort != x.p.Reg.sortOf(from) {
			return x.fresh("boxed", SIface)
		}
		return box(x.p.Reg.ctorFor(from), v)
	}
	return v
}

// evalAs evaluates e and converts it to the target type (handles untyped nil
// and implicit interface conversion).
func (x *Exec) evalAs(st *State, e ast.Expr, to types.Type) *Term {
	tv := x.info().Types[e]
	if tv.IsNil() {
		if to == nil {
			x.unsupported(e, "untyped nil without context")
		}
		return x.zero(to)
	}
	if tv.Value != nil && to != nil {
		if isIfaceType(to) {
			return x.convert(st, x.constTerm(tv.Value, defaultType(tv.Type)), defaultType(tv.Type), to)
		}
		if _, isBasic := to.Underlying().(*types.Basic); isBasic {
			return x.constTerm(tv.Value, to)
		}
	}
	v := x.eval(st, e)
	return x.convert(st, v, tv.Type, to)
}

func (x *Exec) derefCheck(st *State, p *Term, at ast.Node) {
	x.oblige(st, "nil", "", Neq(p, IntLit(0)), at)
}

func (x *Exec) eval(st *State, e ast.Expr) *Term {
	info := x.info()
	if tv, ok := info.Types[e]; ok && tv.Value != nil {
		return x.constTerm(tv.Value, tv.Type)
	}
	switch e := e.(type) {
	case *ast.ParenExpr:
		return x.eval(st, e.X)
	case *ast.Ident:
		return x.evalIdent(st, e)
	case *ast.BasicLit:
		x.unsupported(e, "non-constant literal")
	case *ast.SelectorExpr:
		return x.evalSelector(st, e)
	case *ast.StarExpr:
		p := x.eval(st, e.X)
		x.derefCheck(st, p, e)
		pt := x.typeOf(e.X).Underlying().(*types.Pointer)
		return x.loadTyped(st, pt.Elem(), p)
	case *ast.UnaryExpr:
		return x.evalUnary(st, e)
	case *ast.BinaryExpr:
		return x.evalBinary(st, e)
	case *ast.CallExpr:
		rs := x.evalCall(st, e)
		if len(rs) != 1 {
			x.unsupported(e, "call with %d results used as a value", len(rs))
		}
		return rs[0]
	case *ast.IndexExpr:
		return x.evalIndex(st, e)
	case *ast.SliceExpr:
		return x.evalSliceExpr(st, e)
	case *ast.CompositeLit:
		return x.evalComposite(st, e, x.typeOf(e))
	case *ast.TypeAssertExpr:
		v := x.eval(st, e.X)
		t := x.typeOf(e)
		ok, val := x.typeTest(st, v, x.typeOf(e.X), t)
		x.oblige(st, "cast", "", ok, e)
		return val
	case *ast.FuncLit:
		id := x.fresh("closure", SInt)
		st.assume(And(Lt(IntLit(0), id), Lt(id, st.alloc)))
		x.noteClosure(id, e)
		return id
	}
	x.unsupported(e, "expression form %T", e)
	return nil
}

var closureByID = map[string]*ast.FuncLit{}

func (x *Exec) noteClosure(id *Term, fl *ast.FuncLit) { closureByID[id.Op] = fl }

// loadTyped loads a value of type t from reference r and assumes its type invariant.
func (x *Exec) loadTyped(st *State, t types.Type, r *Term) *Term {
	v := x.loadAt(st, t, r)
	if x.spec == 0 {
		st.assume(x.typeInv(t, v, st, 1))
	} else {
		x.specInvAxiom(t, v, st)
	}
	if v.Op == "select" && len(v.Args) == 2 && v.Args[0].IsLeaf() && strings.HasSuffix(v.Args[0].Op, "@0") && x.alloc0 != nil && !v.Bound {
		// a reference read from the heap of the pre-state was allocated before the call
		switch t.Underlying().(type) {
		case *types.Pointer, *types.Map, *types.Chan:
			if x.spec == 0 {
				st.assume(Lt(v, x.alloc0))
			} else {
				x.axiomIfClosed(Lt(v, x.alloc0))
			}
		}
	}
	return v
}

// in spec mode the state may be a snapshot; type invariants of loaded values
// are facts about the heap and are recorded as axioms when they do not mention
// the allocator of a different state.
// specInvAxiom records, for a value loaded while evaluating a specification,
// the type invariant of the loads from heap variables it may stand for. A heap
// variable denotes a well-typed heap whatever path is taken, so these facts
// are universal. A value that was stored on the current path (the load was
// simplified to it, or it sits in a store the load goes through) is NOT
// covered: its invariant holds under that path's condition only - e.g.
// len(s[:n-1]) >= 0 where the bounds check n >= 1 was assumed - and stating it
// as an axiom would make every other path infeasible.
func (x *Exec) specInvAxiom(t types.Type, v *Term, st *State) {
	ls := pureLoadsOf(v)
	if os.Getenv("HVC_PUREDEBUG") != "" {
		str := v.String()
		if len(str) > 3000 {
			str = str[:3000]
		}
		fmt.Fprintf(os.Stderr, "PURE %d %s :: %s\n", len(ls), t, str)
	}
	for _, u := range ls {
		x.axiomIfClosed(x.typeInv(t, u, st, 1))
	}
}

func pureLoadsOf(v *Term) []*Term {
	if p, ok := purify(v); ok {
		return []*Term{p}
	}
	if v.Op == "ite" && len(v.Args) == 3 {
		return append(pureLoadsOf(v.Args[1]), pureLoadsOf(v.Args[2])...)
	}
	return nil
}

// purify: v with every store removed from the heaps it loads from (so that it
// speaks about heap variables only), or false when v contains a constructed
// value other than a struct of loads.
func purify(v *Term) (*Term, bool) {
	switch {
	case v.QVars != nil:
		return nil, false
	case v.IsLeaf():
		// a literal, or an unknown introduced earlier: nothing but its own
		// invariant (assumed where it was introduced) constrains it
		return v, true
	case v.Op == "select" && len(v.Args) == 2:
		h, ok := stripStores(v.Args[0])
		if !ok {
			return nil, false
		}
		if h == v.Args[0] {
			return v, true
		}
		return Select(h, v.Args[1]), true
	case v.Op == "ite" && len(v.Args) == 3:
		a, ok1 := purify(v.Args[1])
		b, ok2 := purify(v.Args[2])
		if !ok1 || !ok2 {
			return nil, false
		}
		if a == v.Args[1] && b == v.Args[2] {
			return v, true
		}
		return Ite(v.Args[0], a, b), true
	case strings.HasPrefix(v.Op, "mk!"):
		// a struct value read field by field
		args := make([]*Term, len(v.Args))
		same := true
		for i, a := range v.Args {
			p, ok := purify(a)
			if !ok {
				return nil, false
			}
			args[i] = p
			same = same && p == a
		}
		if same {
			return v, true
		}
		return App(v.Op, v.Sort, args...), true
	}
	return nil, false
}

func stripStores(h *Term) (*Term, bool) {
	switch {
	case h.IsLeaf():
		return h, true
	case h.Op == "store" && len(h.Args) == 3:
		return stripStores(h.Args[0])
	case h.Op == "ite" && len(h.Args) == 3:
		a, ok1 := stripStores(h.Args[1])
		b, ok2 := stripStores(h.Args[2])
		if !ok1 || !ok2 {
			return nil, false
		}
		if a == h.Args[1] && b == h.Args[2] {
			return h, true
		}
		return Ite(h.Args[0], a, b), true
	}
	return nil, false
}

func (x *Exec) axiomIfClosed(t *Term) {
	if !t.Bound {
		x.axiom(t)
		return
	}
	// a load under a quantifier: the type invariant holds of every cell, so it
	// is stated for all values of the bound variables - one quantifier per
	// conjunct, triggered by the load it is about (without a trigger the
	// invariants of a slice of large structs instantiate each other endlessly)
	conjuncts := []*Term{t}
	if t.Op == "and" && t.QVars == nil {
		conjuncts = t.Args
	}
	for _, c := range conjuncts {
		if !c.Bound {
			x.axiom(c)
			continue
		}
		var vars []*Term
		var pat *Term
		seen := map[*Term]bool{}
		var walk func(u *Term)
		walk = func(u *Term) {
			if seen[u] || !u.Bound {
				return
			}
			seen[u] = true
			if len(u.Args) == 0 && u.QVars == nil {
				vars = append(vars, u)
				return
			}
			for _, a := range u.Args {
				walk(a)
			}
			if pat == nil && u.Op == "select" && len(u.Args) == 2 && !u.Args[0].Bound && u.QVars == nil {
				pat = u // innermost load whose address depends on the bound variables
			}
		}
		walk(c)
		if len(vars) == 0 || c.isTrue() {
			continue
		}
		if pat != nil && patternOK(pat, map[*Term]bool{}) && coversVars(pat, vars) {
			x.axiom(ForallPat(vars, c, pat))
		} else {
			x.axiom(Forall(vars, c))
		}
	}
}

// coversVars: every bound variable occurs in the pattern.
func coversVars(pat *Term, vars []*Term) bool {
	found := map[*Term]bool{}
	seen := map[*Term]bool{}
	var walk func(u *Term)
	walk = func(u *Term) {
		if seen[u] {
			return
		}
		seen[u] = true
		if len(u.Args) == 0 {
			found[u] = true
		}
		for _, a := range u.Args {
			walk(a)
		}
	}
	walk(pat)
	for _, v := range vars {
		if !found[v] {
			return false
		}
	}
	return true
}

func (x *Exec) evalIdent(st *State, id *ast.Ident) *Term {
	obj := x.info().ObjectOf(id)
	switch o := obj.(type) {
	case *types.Var:
		if o.IsField() {
			x.unsupported(id, "field identifier")
		}
		if o.Parent() == o.Pkg().Scope() {
			// package-level variable
			v := x.hread(st, globalHeap(o), x.p.Reg.sortOf(o.Type()), IntLit(0))
			if x.spec == 0 {
				st.assume(x.typeInv(o.Type(), v, st, 1))
			}
			return v
		}
		if x.boxed[o] {
			ref, ok := st.vars[o]
			if !ok {
				x.unsupported(id, "boxed variable %s not bound", o.Name())
			}
			return x.loadAt(st, o.Type(), ref)
		}
		v, ok := st.vars[o]
		if !ok {
			if bv, isBound := x.boundVars[o]; isBound {
				return bv // quantifier variable used inside old()/entry()
			}
			x.unsupported(id, "variable %s not bound", o.Name())
		}
		return v
	case *types.Nil:
		if tv, ok := x.info().Types[id]; ok && tv.Type != nil {
			if b, isB := tv.Type.(*types.Basic); !isB || b.Kind() != types.UntypedNil {
				return x.zero(tv.Type)
			}
		}
		x.unsupported(id, "untyped nil")
	case *types.Func:
		// function value
		name := "fn!" + sanitize(shortPkg(o.Pkg().Path())+"."+o.Name())
		x.consts[name] = SInt
		x.fnSyms[name] = o
		x.axiom(Gt(Sym(name, SInt), IntLit(0)))
		return Sym(name, SInt)
	case *types.Const:
		return x.constTerm(o.Val(), o.Type())
	}
	x.unsupported(id, "identifier %s (%T)", id.Name, obj)
	return nil
}

func (x *Exec) evalSelector(st *State, e *ast.SelectorExpr) *Term {
	info := x.info()
	if sel, ok := info.Selections[e]; ok {
		switch sel.Kind() {
		case types.FieldVal:
			// walk the path
			cur := x.eval(st, e.X)
			curT := x.typeOf(e.X)
			for _, idx := range sel.Index() {
				if pt, ok := curT.Underlying().(*types.Pointer); ok {
					x.derefCheck(st, cur, e)
					stt := pt.Elem().Underlying().(*types.Struct)
					f := stt.Field(idx)
					ss := x.p.Reg.structOf(pt.Elem())
					v := x.hread(st, fieldHeap(pt.Elem(), f.Name()), ss.Fields[idx].Sort, cur)
					if x.spec == 0 {
						st.assume(x.typeInv(f.Type(), v, st, 1))
					} else {
						x.specInvAxiom(f.Type(), v, st)
					}
					cur, curT = v, f.Type()
				} else {
					stt, ok := curT.Underlying().(*types.Struct)
					if !ok {
						x.unsupported(e, "field selection on %s", curT)
					}
					ss := x.p.Reg.structOf(curT)
					cur, curT = getField(ss, cur, idx), stt.Field(idx).Type()
				}
			}
			return cur
		case types.MethodVal:
			// a bound method value is an opaque function value
			x.eval(st, e.X)
			x.abstracted("method value (opaque function value)")
			id := x.fresh("methodval", SInt)
			st.assume(And(Lt(IntLit(0), id), Lt(id, st.alloc)))
			return id
		}
	}
	// qualified identifier
	return x.evalIdent(st, e.Sel)
}

func (x *Exec) evalUnary(st *State, e *ast.UnaryExpr) *Term {
	switch e.Op {
	case token.NOT:
		return Not(x.eval(st, e.X))
	case token.SUB:
		v := x.eval(st, e.X)
		t := x.typeOf(e)
		if isFloatType(t) {
			return mk("fp.neg", SFloat, v)
		}
		return x.arithResult(st, Neg(v), t, func() *Term { return x.wrapAddSub(Neg(v), t) }, e)
	case token.ADD:
		return x.eval(st, e.X)
	case token.XOR:
		v := x.eval(st, e.X)
		t := x.typeOf(e)
		if b := basicOf(t); b != nil && b.Info()&types.IsUnsigned != 0 {
			_, hi, _ := intRange(b)
			return Sub(BigLit(hi), v)
		}
		return Sub(Neg(v), IntLit(1))
	case token.AND:
		return x.addressOf(st, e.X, e)
	case token.ARROW:
		ch := x.eval(st, e.X)
		_ = ch
		x.abstracted("channel receive")
		return x.unknown(st, "recv", x.typeOf(e))
	}
	x.unsupported(e, "unary operator %s", e.Op)
	return nil
}

func (x *Exec) addressOf(st *State, target ast.Expr, at ast.Node) *Term {
	target = ast.Unparen(target)
	switch t := target.(type) {
	case *ast.CompositeLit:
		typ := x.typeOf(t)
		v := x.evalComposite(st, t, typ)
		ref := x.allocRefs(st, IntLit(1))
		x.storeAt(st, typ, ref, v, at)
		return ref
	case *ast.Ident:
		if o, ok := x.info().ObjectOf(t).(*types.Var); ok && x.boxed[o] {
			return st.vars[o]
		}
	case *ast.IndexExpr:
		if _, ok := x.typeOf(t.X).Underlying().(*types.Slice); ok {
			s := x.eval(st, t.X)
			i := x.eval(st, t.Index)
			x.oblige(st, "idx", "", And(Le(IntLit(0), i), Lt(i, slLen(s))), t)
			return Add(slBase(s), i)
		}
	case *ast.StarExpr:
		return x.eval(st, t.X)
	}
	x.unsupported(at, "address of %s (interior pointer)", x.nodeText(target))
	return nil
}

func (x *Exec) rangeOf(t types.Type) (lo, hi *big.Int, ok bool) {
	b := basicOf(t)
	if b == nil || b.Info()&types.IsInteger == 0 {
		return nil, nil, false
	}
	return intRange(b)
}

// arithMode: "math" (64-bit arithmetic assumed not to overflow; the default,
// reported as an assumption), "wrap" (exact two's-complement semantics) or
// "overflow" (every + - * carries a fits obligation). Types narrower than 64
// bits are always wrapped exactly. Specifications use mathematical integers.
func (x *Exec) arithMode(t types.Type) string {
	wraps := func(fi *FuncInfo) bool {
		v, ok := fi.Flags["wrap"]
		if !ok {
			return false
		}
		if v == "" || v == "true" {
			return true
		}
		// "wrap int64": only the listed types wrap
		for _, name := range strings.Fields(v) {
			if b := basicOf(t); b != nil && b.Name() == name {
				return true
			}
		}
		return false
	}
	if x.spec > 0 {
		// a specification function flagged wrap states two's-complement semantics
		for i := len(x.frames) - 1; i >= 0; i-- {
			if x.frames[i].isTop {
				break
			}
			if wraps(x.frames[i].fi) {
				return "wrap"
			}
		}
		return "math"
	}
	if b := basicOf(t); b != nil {
		switch b.Kind() {
		case types.Int, types.Int64, types.Uint, types.Uint64, types.Uintptr, types.UntypedInt:
		default:
			return "wrap"
		}
	}
	for i := len(x.frames) - 1; i >= 0; i-- {
		fi := x.frames[i].fi
		if wraps(fi) {
			return "wrap"
		}
		if fi.Flag("overflow") {
			return "overflow"
		}
		if fi.Lit == nil {
			break
		}
	}
	return "math"
}

func (x *Exec) arithResult(st *State, v *Term, t types.Type, wrapped func() *Term, at ast.Node) *Term {
	lo, hi, ok := x.rangeOf(t)
	if !ok {
		return v
	}
	switch x.arithMode(t) {
	case "wrap":
		return wrapped()
	case "overflow":
		x.oblige(st, "arith", "", And(Le(BigLit(lo), v), Le(v, BigLit(hi))), at)
		return v
	}
	if x.spec == 0 {
		x.mathSites++
	}
	return v
}

// wrapAddSub wraps a value that is at most one modulus outside the range of t.
func (x *Exec) wrapAddSub(v *Term, t types.Type) *Term {
	lo, hi, ok := x.rangeOf(t)
	if !ok {
		return v
	}
	if n, isLit := v.intVal(); isLit && n.Cmp(lo) >= 0 && n.Cmp(hi) <= 0 {
		return v
	}
	m := new(big.Int).Add(new(big.Int).Sub(hi, lo), big.NewInt(1))
	return Ite(Gt(v, BigLit(hi)), Sub(v, BigLit(m)), Ite(Lt(v, BigLit(lo)), Add(v, BigLit(m)), v))
}

// wrapMod wraps an arbitrary integer into the range of t.
func (x *Exec) wrapMod(v *Term, t types.Type) *Term {
	lo, hi, ok := x.rangeOf(t)
	if !ok {
		return v
	}
	if n, isLit := v.intVal(); isLit && n.Cmp(lo) >= 0 && n.Cmp(hi) <= 0 {
		return v
	}
	m := new(big.Int).Add(new(big.Int).Sub(hi, lo), big.NewInt(1))
	inRange := And(Le(BigLit(lo), v), Le(v, BigLit(hi)))
	return Ite(inRange, v, Add(mk("mod", SInt, Sub(v, BigLit(lo)), BigLit(m)), BigLit(lo)))
}

func (x *Exec) goDiv(a, b *Term) *Term {
	x.needDiv()
	return App("go.div", SInt, a, b)
}
func (x *Exec) goRem(a, b *Term) *Term {
	x.needDiv()
	return App("go.rem", SInt, a, b)
}

var divDefs = []string{
	"(define-fun go.div ((x Int) (y Int)) Int (ite (>= x 0) (ite (> y 0) (div x y) (- (div x (- y)))) (ite (> y 0) (- (div (- x) y)) (div (- x) (- y)))))",
	"(define-fun go.rem ((x Int) (y Int)) Int (- x (* y (go.div x y))))",
}

func (x *Exec) needDiv() { x.consts["$needdiv"] = "" }

func (x *Exec) evalBinary(st *State, e *ast.BinaryExpr) *Term {
	switch e.Op {
	case token.LAND, token.LOR:
		a := x.eval(st, e.X)
		// evaluate the right operand in a forked state guarded by a
		n := len(st.pc)
		rs := st.clone()
		if e.Op == token.LAND {
			rs.pc = append(rs.pc, a)
		} else {
			rs.pc = append(rs.pc, Not(a))
		}
		b := x.eval(rs, e.Y)
		x.absorb(st, rs, n)
		if e.Op == token.LAND {
			return And(a, b)
		}
		return Or(a, b)
	}
	lt, rt := x.typeOf(e.X), x.typeOf(e.Y)
	var a, b *Term
	switch e.Op {
	case token.EQL, token.NEQ:
		// comparison: mixed interface/concrete operands are converted
		ltv, rtv := x.info().Types[e.X], x.info().Types[e.Y]
		switch {
		case ltv.IsNil():
			b = x.eval(st, e.Y)
			a = x.zero(rt)
		case rtv.IsNil():
			a = x.eval(st, e.X)
			b = x.zero(lt)
		case isIfaceType(lt) && !isIfaceType(rt):
			a = x.eval(st, e.X)
			b = x.evalAs(st, e.Y, lt)
		case !isIfaceType(lt) && isIfaceType(rt):
			a = x.evalAs(st, e.X, rt)
			b = x.eval(st, e.Y)
		default:
			a, b = x.evalOperands(st, e)
		}
		var r *Term
		if a.Sort == SFloat {
			r = mk("fp.eq", SBool, a, b)
		} else {
			r = Eq(a, b)
		}
		if e.Op == token.NEQ {
			return Not(r)
		}
		return r
	}
	if e.Op == token.SHL || e.Op == token.SHR {
		a = x.eval(st, e.X)
		b = x.eval(st, e.Y)
		if bb := basicOf(rt); bb != nil && bb.Info()&types.IsUnsigned == 0 {
			x.oblige(st, "shift", "", Ge(b, IntLit(0)), e)
		}
		t := x.typeOf(e)
		if n, ok := b.intVal(); ok && n.IsInt64() && n.Int64() < 63 {
			p := new(big.Int).Lsh(big.NewInt(1), uint(n.Int64()))
			if e.Op == token.SHL {
				v := Mul(a, BigLit(p))
				return x.arithResult(st, v, t, func() *Term { return x.wrapMod(v, t) }, e)
			}
			return mk("div", SInt, a, BigLit(p)) // floor division = arithmetic shift
		}
		op := "go.shl"
		if e.Op == token.SHR {
			op = "go.shr"
		}
		r := x.app(op, SInt, a, b)
		x.axiom(x.typeInvPlain(t, r))
		return r
	}
	a, b = x.evalOperands(st, e)
	t := x.typeOf(e)
	opT := lt
	if b0 := basicOf(lt); b0 != nil && b0.Info()&types.IsUntyped != 0 {
		opT = rt
	}
	switch {
	case isFloatType(opT):
		switch e.Op {
		case token.ADD:
			return x.fpComm("fp.add", a, b)
		case token.SUB:
			return mk("fp.sub", SFloat, Sym("RNE", "RoundingMode"), a, b)
		case token.MUL:
			return x.fpComm("fp.mul", a, b)
		case token.QUO:
			return mk("fp.div", SFloat, Sym("RNE", "RoundingMode"), a, b)
		case token.LSS:
			return mk("fp.lt", SBool, a, b)
		case token.LEQ:
			return mk("fp.leq", SBool, a, b)
		case token.GTR:
			return mk("fp.gt", SBool, a, b)
		case token.GEQ:
			return mk("fp.geq", SBool, a, b)
		}
	case isStringType(opT):
		switch e.Op {
		case token.ADD:
			return x.strConcat(a, b)
		case token.LSS:
			return x.app("s.lt", SBool, a, b)
		case token.GTR:
			return x.app("s.lt", SBool, b, a)
		case token.LEQ:
			return Not(x.app("s.lt", SBool, b, a))
		case token.GEQ:
			return Not(x.app("s.lt", SBool, a, b))
		}
	case isIntType(opT):
		switch e.Op {
		case token.ADD:
			return x.arithResult(st, Add(a, b), t, func() *Term { return x.wrapAddSub(Add(a, b), t) }, e)
		case token.SUB:
			if bb := basicOf(t); bb != nil && bb.Info()&types.IsUnsigned != 0 && x.spec == 0 && x.arithMode(t) != "wrap" {
				// unsigned subtraction below zero silently wraps to a huge value: always an obligation
				x.oblige(st, "arith", "unsigned subtraction "+x.nodeText(e), Ge(a, b), e)
			}
			return x.arithResult(st, Sub(a, b), t, func() *Term { return x.wrapAddSub(Sub(a, b), t) }, e)
		case token.MUL:
			return x.arithResult(st, Mul(a, b), t, func() *Term { return x.wrapMod(Mul(a, b), t) }, e)
		case token.QUO:
			x.oblige(st, "div", "", Neq(b, IntLit(0)), e)
			q := x.goDiv(a, b)
			return x.arithResult(st, q, t, func() *Term { return x.wrapAddSub(q, t) }, e)
		case token.REM:
			x.oblige(st, "div", "", Neq(b, IntLit(0)), e)
			return x.goRem(a, b)
		case token.LSS:
			return Lt(a, b)
		case token.LEQ:
			return Le(a, b)
		case token.GTR:
			return Gt(a, b)
		case token.GEQ:
			return Ge(a, b)
		case token.AND, token.OR, token.XOR, token.AND_NOT:
			op := map[token.Token]string{token.AND: "go.and", token.OR: "go.or", token.XOR: "go.xor", token.AND_NOT: "go.andnot"}[e.Op]
			if e.Op != token.AND_NOT && a.id > b.id {
				a, b = b, a
			}
			r := x.app(op, SInt, a, b)
			x.axiom(x.typeInvPlain(t, r))
			return r
		}
	case isBoolType(opT):
		// only == and != reach here, handled above
	}
	x.unsupported(e, "binary operator %s on %s", e.Op, opT)
	return nil
}

func (x *Exec) fpComm(op string, a, b *Term) *Term {
	if a.id > b.id {
		a, b = b, a
	}
	return mk(op, SFloat, Sym("RNE", "RoundingMode"), a, b)
}

// typeInvPlain: range invariants that do not depend on a state
func (x *Exec) typeInvPlain(t types.Type, v *Term) *Term {
	if lo, hi, ok := x.rangeOf(t); ok {
		return And(Le(BigLit(lo), v), Le(v, BigLit(hi)))
	}
	return tTrue
}

func (x *Exec) evalOperands(st *State, e *ast.BinaryExpr) (*Term, *Term) {
	lt, rt := x.typeOf(e.X), x.typeOf(e.Y)
	ltv, rtv := x.info().Types[e.X], x.info().Types[e.Y]
	var a, b *Term
	// untyped constants take the other operand's type
	if ltv.Value != nil && basicOf(lt) != nil && basicOf(lt).Info()&types.IsUntyped != 0 {
		a = x.constTerm(ltv.Value, rt)
	} else {
		a = x.eval(st, e.X)
	}
	if rtv.Value != nil && basicOf(rt) != nil && basicOf(rt).Info()&types.IsUntyped != 0 {
		b = x.constTerm(rtv.Value, lt)
	} else {
		b = x.eval(st, e.Y)
	}
	return a, b
}

// absorb merges the effects of evaluating in a forked state rs (guarded
// evaluation of a short-circuit operand) back into st.
func (x *Exec) absorb(st, rs *State, n int) {
	// facts learned in rs hold under its guard
	guard := rs.pc[n]
	extra := rs.pc[n+1:]
	changed := false
	for k, v := range rs.heaps {
		if st.heaps[k] != v {
			changed = true
		}
	}
	if rs.alloc != st.alloc || rs.epoch != st.epoch {
		changed = true
	}
	if !changed {
		for _, f := range extra {
			st.assume(Implies(guard, f))
		}
		return
	}
	other := st.clone()
	other.assume(Not(guard))
	m := x.merge(n, []*State{rs, other})
	*st = *m
}

func (x *Exec) evalIndex(st *State, e *ast.IndexExpr) *Term {
	bt := x.typeOf(e.X)
	switch u := bt.Underlying().(type) {
	case *types.Slice:
		s := x.eval(st, e.X)
		i := x.eval(st, e.Index)
		x.oblige(st, "idx", "", And(Le(IntLit(0), i), Lt(i, slLen(s))), e)
		v := x.loadTyped(st, u.Elem(), Add(slBase(s), i))
		x.assumeElemInv(st, bt, u.Elem(), v)
		return v
	case *types.Map:
		m := x.eval(st, e.X)
		k := x.evalAs(st, e.Index, u.Key())
		val, ok := x.mapLookup(st, u, m, k)
		return Ite(ok, val, x.zero(u.Elem()))
	case *types.Basic:
		if u.Info()&types.IsString != 0 {
			s := x.eval(st, e.X)
			i := x.eval(st, e.Index)
			x.oblige(st, "idx", "", And(Le(IntLit(0), i), Lt(i, x.strLen(s))), e)
			r := x.app("s.at", SInt, s, i)
			x.axiomIfClosed(And(Le(IntLit(0), r), Le(r, IntLit(255))))
			return r
		}
	case *types.Array:
		if ss := x.p.Reg.structOf(bt); ss != nil {
			a := x.eval(st, e.X)
			i := x.eval(st, e.Index)
			x.oblige(st, "idx", "", And(Le(IntLit(0), i), Lt(i, IntLit(u.Len()))), e)
			if n, ok := i.intVal(); ok && n.IsInt64() && n.Int64() >= 0 && n.Int64() < u.Len() {
				return getField(ss, a, int(n.Int64()))
			}
			r := getField(ss, a, int(u.Len()-1))
			for k := int(u.Len()) - 2; k >= 0; k-- {
				r = Ite(Eq(i, IntLit(int64(k))), getField(ss, a, k), r)
			}
			return r
		}
	case *types.Pointer:
	}
	x.unsupported(e, "index of %s", bt)
	return nil
}

// ---------------------------------------------------------------- maps

func mapSort(k, v Sort) Sort { return Sort("(Array " + string(k) + " " + string(v) + ")") }

func (x *Exec) mapHeaps(mt *types.Map) (dom, val string, ks, vs Sort) {
	n := sanitize(typeStr(mt))
	ks, vs = x.p.Reg.sortOf(mt.Key()), x.p.Reg.sortOf(mt.Elem())
	return "M$" + n + "$dom", "M$" + n + "$val", ks, vs
}

func selectKV(arr, k *Term, elem Sort) *Term {
	if arr.Op == "store" && len(arr.Args) == 3 && sameTerm(arr.Args[1], k) {
		return arr.Args[2]
	}
	return mk("select", elem, arr, k)
}

func (x *Exec) mapLookup(st *State, mt *types.Map, m, k *Term) (val, ok *Term) {
	dn, vn, ks, vs := x.mapHeaps(mt)
	dom := x.hread(st, dn, mapSort(ks, SBool), m)
	vals := x.hread(st, vn, mapSort(ks, vs), m)
	ok = And(Neq(m, IntLit(0)), selectKV(dom, k, SBool))
	val = selectKV(vals, k, vs)
	if x.spec == 0 {
		st.assume(Implies(ok, x.typeInv(mt.Elem(), val, st, 1)))
		if x.p.NonNilElems[typeStr(mt)] {
			x.elemInvUsed(typeStr(mt))
			st.assume(Implies(ok, x.nonNilPointee(st, mt.Elem(), val)))
		}
	}
	return val, ok
}

func (x *Exec) mapLen(st *State, mt *types.Map, m *Term) *Term {
	dn, _, ks, _ := x.mapHeaps(mt)
	dom := x.hread(st, dn, mapSort(ks, SBool), m)
	r := x.app("map.card!"+sanitize(string(ks)), SInt, dom)
	x.axiom(Ge(r, IntLit(0)))
	return Ite(Eq(m, IntLit(0)), IntLit(0), r)
}

func (x *Exec) mapStore(st *State, mt *types.Map, m, k, v *Term, at ast.Node) {
	dn, vn, ks, vs := x.mapHeaps(mt)
	x.oblige(st, "nil", "write to nil map", Neq(m, IntLit(0)), at)
	x.checkStableMaps(st, dn, m, at)
	dom := x.hread(st, dn, mapSort(ks, SBool), m)
	vals := x.hread(st, vn, mapSort(ks, vs), m)
	nd := mk("store", dom.Sort, dom, k, tTrue)
	x.hwrite(st, dn, mapSort(ks, SBool), m, nd, at)
	x.hwrite(st, vn, mapSort(ks, vs), m, mk("store", vals.Sort, vals, k, v), at)
	// cardinality
	card := "map.card!" + sanitize(string(ks))
	x.axiom(Eq(x.app(card, SInt, nd), Ite(selectKV(dom, k, SBool), x.app(card, SInt, dom), Add(x.app(card, SInt, dom), IntLit(1)))))
}

// checkStableMaps: a map whose iteration is reasoned about with visited()
// must not be written while it is ranged over.
func (x *Exec) checkStableMaps(st *State, dn string, m *Term, at ast.Node) {
	if x.spec > 0 {
		return
	}
	for _, sm := range x.stableMaps {
		if sm.dn == dn {
			x.oblige(st, "frame", "map written while a loop ranges over it with visited()", Neq(m, sm.ref), at)
		}
	}
}

func (x *Exec) mapDelete(st *State, mt *types.Map, m, k *Term, at ast.Node) {
	dn, _, ks, _ := x.mapHeaps(mt)
	x.checkStableMaps(st, dn, m, at)
	dom := x.hread(st, dn, mapSort(ks, SBool), m)
	nd := mk("store", dom.Sort, dom, k, tFalse)
	x.hwrite(st, dn, mapSort(ks, SBool), m, Ite(Eq(m, IntLit(0)), dom, nd), at)
	card := "map.card!" + sanitize(string(ks))
	x.axiom(Eq(x.app(card, SInt, nd), Ite(selectKV(dom, k, SBool), Sub(x.app(card, SInt, dom), IntLit(1)), x.app(card, SInt, dom))))
}

func (x *Exec) newMap(st *State, mt *types.Map, at ast.Node) *Term {
	dn, _, ks, _ := x.mapHeaps(mt)
	ref := x.allocRefs(st, IntLit(1))
	empty := mk("((as const "+string(mapSort(ks, SBool))+") false)", mapSort(ks, SBool))
	x.hwrite(st, dn, mapSort(ks, SBool), ref, empty, at)
	card := "map.card!" + sanitize(string(ks))
	x.axiom(Eq(x.app(card, SInt, empty), IntLit(0)))
	return ref
}

// ---------------------------------------------------------------- slices

func (x *Exec) evalSliceExpr(st *State, e *ast.SliceExpr) *Term {
	bt := x.typeOf(e.X)
	var lo, hi *Term
	if e.Low != nil {
		lo = x.eval(st, e.Low)
	} else {
		lo = IntLit(0)
	}
	switch bt.Underlying().(type) {
	case *types.Slice:
		s := x.eval(st, e.X)
		if e.High != nil {
			hi = x.eval(st, e.High)
		} else {
			hi = slLen(s)
		}
		mx := slCap(s)
		if e.Slice3 {
			m := x.eval(st, e.Max)
			x.oblige(st, "idx", "", And(Le(hi, m), Le(m, slCap(s))), e)
			mx = m
		}
		x.oblige(st, "idx", "", And(Le(IntLit(0), lo), Le(lo, hi), Le(hi, mx)), e)
		return mkSlice(Add(slBase(s), lo), Sub(hi, lo), Sub(mx, lo))
	case *types.Basic:
		s := x.eval(st, e.X)
		if e.High != nil {
			hi = x.eval(st, e.High)
		} else {
			hi = x.strLen(s)
		}
		x.oblige(st, "idx", "", And(Le(IntLit(0), lo), Le(lo, hi), Le(hi, x.strLen(s))), e)
		r := x.app("s.sub", SStr, s, lo, hi)
		x.axiom(Implies(And(Le(IntLit(0), lo), Le(lo, hi)), Eq(x.app("s.len", SInt, r), Sub(hi, lo))))
		return r
	}
	x.unsupported(e, "slice expression on %s", bt)
	return nil
}

// ---------------------------------------------------------------- composite literals

func (x *Exec) evalComposite(st *State, e *ast.CompositeLit, t types.Type) *Term {
	switch u := t.Underlying().(type) {
	case *types.Struct:
		ss := x.p.Reg.structOf(t)
		vals := make([]*Term, u.NumFields())
		for i, el := range e.Elts {
			if kv, ok := el.(*ast.KeyValueExpr); ok {
				name := kv.Key.(*ast.Ident).Name
				_, idx := ss.field(name)
				if idx < 0 {
					x.unsupported(e, "unknown field %s", name)
				}
				vals[idx] = x.evalElt(st, kv.Value, u.Field(idx).Type())
			} else {
				vals[i] = x.evalElt(st, el, u.Field(i).Type())
			}
		}
		for i := range vals {
			if vals[i] == nil {
				vals[i] = x.zero(u.Field(i).Type())
			}
		}
		return mkStruct(ss, vals)
	case *types.Slice:
		n := int64(len(e.Elts))
		base := x.allocRefs(st, IntLit(n))
		for i, el := range e.Elts {
			if _, ok := el.(*ast.KeyValueExpr); ok {
				x.unsupported(e, "keyed slice literal")
			}
			v := x.evalElt(st, el, u.Elem())
			x.storeAt(st, u.Elem(), Add(base, IntLit(int64(i))), v, e)
		}
		if n == 0 {
			// non-nil empty slice: base is a valid (non-zero) reference
			return mkSlice(base, IntLit(0), IntLit(0))
		}
		return mkSlice(base, IntLit(n), IntLit(n))
	case *types.Array:
		if ss := x.p.Reg.structOf(t); ss != nil {
			vals := make([]*Term, len(ss.Fields))
			for i, el := range e.Elts {
				if _, ok := el.(*ast.KeyValueExpr); ok {
					x.unsupported(e, "keyed array literal")
				}
				if i < len(vals) {
					vals[i] = x.evalElt(st, el, u.Elem())
				}
			}
			for i := range vals {
				if vals[i] == nil {
					vals[i] = x.zero(u.Elem())
				}
			}
			return mkStruct(ss, vals)
		}
	case *types.Map:
		ref := x.newMap(st, u, e)
		for _, el := range e.Elts {
			kv := el.(*ast.KeyValueExpr)
			k := x.evalElt(st, kv.Key, u.Key())
			v := x.evalElt(st, kv.Value, u.Elem())
			x.mapStore(st, u, ref, k, v, e)
		}
		return ref
	}
	x.unsupported(e, "composite literal of %s", t)
	return nil
}

func (x *Exec) evalElt(st *State, el ast.Expr, t types.Type) *Term {
	if cl, ok := el.(*ast.CompositeLit); ok && cl.Type == nil {
		// elided type
		if pt, isPtr := t.Underlying().(*types.Pointer); isPtr {
			v := x.evalComposite(st, cl, pt.Elem())
			ref := x.allocRefs(st, IntLit(1))
			x.storeAt(st, pt.Elem(), ref, v, el)
			return ref
		}
		return x.evalComposite(st, cl, t)
	}
	return x.evalAs(st, el, t)
}

// ---------------------------------------------------------------- type tests

// typeTest returns (ok, value) for v.(t) where v has static interface type from.
func (x *Exec) typeTest(st *State, v *Term, from, t types.Type) (*Term, *Term) {
	if isIfaceType(t) {
		iface := t.Underlying().(*types.Interface)
		if iface.NumMethods() == 0 {
			return Neq(v, ifaceNil), v
		}
		if x.p.closedWorld(from) {
			var alts []*Term
			for _, it := range x.p.implementers(from) {
				if types.Implements(it, iface) {
					alts = append(alts, isBox(x.p.Reg.ctorFor(it), v))
				}
			}
			return Or(alts...), v
		}
		if x.p.closedWorld(t) {
			// open source, closed target: dynamic type is one of the target's implementers
			var alts []*Term
			for _, it := range x.p.implementers(t) {
				alts = append(alts, isBox(x.p.Reg.ctorFor(it), v))
			}
			return Or(alts...), v
		}
		ok := x.fresh("implements", SBool)
		st.assume(Implies(ok, Neq(v, ifaceNil)))
		return ok, v
	}
	c := x.p.Reg.ctorFor(t)
	ok := isBox(c, v)
	val := unbox(c, v)
	if x.spec == 0 {
		st.assume(Implies(ok, x.typeInv(t, val, st, 1)))
	}
	return ok, val
}

func trimTypeName(s string) string {
	if i := strings.LastIndex(s, "."); i >= 0 {
		return s[i+1:]
	}
	return s
}

// assumed data invariants (assume-invariant directives): the elements of the
// registered container types are non-nil pointers to non-nil values.
func (x *Exec) assumeElemInv(st *State, container types.Type, elem types.Type, v *Term) {
	if x.spec > 0 || !x.p.NonNilElems[typeStr(container)] {
		return
	}
	x.elemInvUsed(typeStr(container))
	st.assume(x.nonNilPointee(st, elem, v))
}

func (x *Exec) elemInvUsed(t string) {
	msg := "assumed data invariant: elements of " + t + " are non-nil pointers to non-nil values"
	for _, a := range x.assumed {
		if a == msg {
			return
		}
	}
	x.assumed = append(x.assumed, msg)
}

func (x *Exec) nonNilPointee(st *State, elem types.Type, v *Term) *Term {
	pt, ok := elem.Underlying().(*types.Pointer)
	if !ok {
		return tTrue
	}
	cs := []*Term{Neq(v, IntLit(0))}
	if isIfaceType(pt.Elem()) {
		cs = append(cs, Neq(x.hread(st, heapOfType(pt.Elem()), SIface, v), ifaceNil))
	}
	return And(cs...)
}
