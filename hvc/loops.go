package main

import (
	"fmt"
	"go/ast"
	"go/token"
	"go/types"
	"strings"
)

// assignedVars collects local variables assigned (not declared) in the nodes.
func (x *Exec) assignedVars(nodes ...ast.Node) []*types.Var {
	seen := map[*types.Var]bool{}
	var out []*types.Var
	add := func(e ast.Expr) {
		for {
			switch t := ast.Unparen(e).(type) {
			case *ast.SelectorExpr:
				if _, ok := x.info().Selections[t]; !ok {
					return
				}
				if tv, ok := x.info().Types[t.X]; ok && tv.Type != nil {
					if _, isPtr := tv.Type.Underlying().(*types.Pointer); isPtr {
						return // a write through a pointer changes the heap, not the variable
					}
				}
				e = t.X
				continue
			case *ast.Ident:
				if v, ok := x.info().Uses[t].(*types.Var); ok && !seen[v] && !v.IsField() {
					if v.Pkg() != nil && v.Parent() == v.Pkg().Scope() {
						return
					}
					seen[v] = true
					out = append(out, v)
				}
			}
			return
		}
	}
	for _, n := range nodes {
		if n == nil {
			continue
		}
		ast.Inspect(n, func(n ast.Node) bool {
			switch s := n.(type) {
			case *ast.AssignStmt:
				for _, l := range s.Lhs {
					add(l)
				}
			case *ast.IncDecStmt:
				add(s.X)
			case *ast.RangeStmt:
				if s.Tok == token.ASSIGN {
					if s.Key != nil {
						add(s.Key)
					}
					if s.Value != nil {
						add(s.Value)
					}
				}
			case *ast.CallExpr:
				// method calls with pointer receivers on local struct variables
				if sel, ok := s.Fun.(*ast.SelectorExpr); ok {
					if sn, ok := x.info().Selections[sel]; ok && sn.Kind() == types.MethodVal {
						if sig, ok := sn.Obj().Type().(*types.Signature); ok && sig.Recv() != nil {
							if _, ptr := sig.Recv().Type().(*types.Pointer); ptr {
								if _, isPtr := x.typeOf(sel.X).Underlying().(*types.Pointer); !isPtr {
									add(sel.X)
								}
							}
						}
					}
				}
			}
			return true
		})
	}
	return out
}

// havocLoop forgets everything the loop may change.
func (x *Exec) havocLoop(st *State, nodes ...ast.Node) {
	// the heaps (and the allocator) first: the unknown values the assigned
	// variables get below may refer to memory allocated in earlier iterations
	eff := x.p.effectsOfNodes(x.cur().fi, x.info(), nodes...)
	x.applyEffects(st, eff, nil, nil)
	for _, v := range x.assignedVars(nodes...) {
		if _, bound := st.vars[v]; !bound {
			continue
		}
		if x.boxed[v] {
			continue // lives in the heap; covered by heap havoc
		}
		st.vars[v] = x.unknown(st, v.Name(), v.Type())
		delete(st.closures, v)
	}
	// ghost counters and channel ghosts may change in any loop that makes calls:
	// the counters already touched on this path, and those the statements of
	// the loop can change (counters named by the contracts of the functions
	// called in the loop, by the unit's own ghost updates, by go statements and
	// time.Sleep) - also when this path has not touched them yet
	names := map[string]bool{}
	for k := range st.ghost {
		names[k] = true
	}
	for _, k := range x.ghostsChangedBy(nodes...) {
		names[k] = true
	}
	for _, k := range sortedKeys(names) {
		x.ghostSet(st, k, x.fresh("ghost."+k, SInt))
	}
	for _, k := range sortedKeys(st.heaps) {
		if strings.HasPrefix(k, "ghost$sent") {
			h := st.heaps[k]
			st.heaps[k] = x.fresh(k+"'", h.Sort)
		}
	}
}

// applyEffects havocs the heaps named by eff. Cells listed in locs are
// replaced individually; with a modifies clause on the verified unit the new
// heap versions stay linked to the unit's entry heap for untouched cells.
func (x *Exec) applyEffects(st *State, eff *Effects, locs []modLoc, elems []modElems) {
	if eff.Top {
		x.abstracted("unknown side effects (all heaps forgotten)")
		x.havocAllHeaps(st)
		return
	}
	if eff.Allocates() {
		na := x.fresh("alloc", SInt)
		st.assume(Ge(na, st.alloc))
		st.alloc = na
	}
	for _, name := range sortedKeys(eff.Writes) {
		elem := eff.Writes[name]
		if x.hasMod && x.spec == 0 && !x.modHeaps[name] {
			// Dafny-style loop/call frame: cells allocated before the unit's
			// entry and not named by its modifies clause keep their entry value.
			entry := x.frames[0].entry
			pred := x.heap(entry, name, elem)
			ml, me := x.modLocs, x.modEl
			nh := x.fresh(name+"'", ArraySort(elem))
			a0 := x.alloc0
			hname := name
			x.links[nh.Op] = &heapLink{pred: pred, keep: func(r *Term) *Term {
				cs := []*Term{Lt(r, a0)}
				for _, m := range ml {
					if m.heap == hname {
						cs = append(cs, Neq(r, m.ref))
					}
				}
				for _, m := range me {
					for _, h := range m.heaps {
						if h == hname {
							cs = append(cs, Or(Lt(r, slBase(m.sl)), Ge(r, Add(slBase(m.sl), slCap(m.sl)))))
						}
					}
				}
				return And(cs...)
			}}
			x.setHeap(st, name, nh)
		} else {
			x.havocHeap(st, name, elem)
		}
	}
}

func (x *Exec) loopInfo(s ast.Stmt) *LoopInfo {
	return x.cur().fi.Loops[s]
}

func (x *Exec) checkInvs(st *State, li *LoopInfo, kind string, at ast.Node) {
	if li == nil {
		return
	}
	if kind == "inv-init" {
		// entry(e) at loop entry is e itself
		x.loopEntry = append(x.loopEntry, st.clone())
		defer func() { x.loopEntry = x.loopEntry[:len(x.loopEntry)-1] }()
	}
	for _, inv := range li.Invariants {
		g := x.evalSpec(st, inv.Expr)
		x.oblige(st, kind, fmt.Sprintf("loop%d.%s", li.Ordinal, inv.Label), g, at)
	}
}

func (x *Exec) assumeInvs(st *State, li *LoopInfo) {
	if li == nil {
		return
	}
	for _, inv := range li.Invariants {
		st.assume(x.evalSpec(st, inv.Expr))
	}
}

func (x *Exec) evalDecreases(st *State, ds []ast.Expr) []*Term {
	var out []*Term
	for _, d := range ds {
		out = append(out, x.evalSpec(st, d))
	}
	return out
}

// lexLess: a < b lexicographically, with every component of b bounded below by 0
func lexLess(a, b []*Term) *Term {
	if len(a) != len(b) || len(a) == 0 {
		return tFalse
	}
	var alts []*Term
	for i := range a {
		cs := []*Term{}
		for j := 0; j < i; j++ {
			cs = append(cs, Eq(a[j], b[j]))
		}
		cs = append(cs, Lt(a[i], b[i]), Ge(b[i], IntLit(0)))
		alts = append(alts, And(cs...))
	}
	return Or(alts...)
}

func (x *Exec) execFor(st *State, s *ast.ForStmt, label string) *State {
	if s.Init != nil {
		st = x.exec(st, s.Init)
		if st == nil {
			return nil
		}
	}
	li := x.loopInfo(s)
	x.checkInvs(st, li, "inv-init", s)
	n := len(st.pc)
	x.loopEntry = append(x.loopEntry, st.clone())
	defer func() { x.loopEntry = x.loopEntry[:len(x.loopEntry)-1] }()
	x.havocLoop(st, s.Body, s.Post, s.Cond)
	x.assumeInvs(st, li)
	x.iterStart = append(x.iterStart, st.clone())
	defer func() { x.iterStart = x.iterStart[:len(x.iterStart)-1] }()
	var exit *State
	body := st
	if s.Cond != nil {
		c := x.eval(st, s.Cond)
		exit = st.clone()
		exit.pc = append(exit.pc, Not(c))
		body = st.clone()
		body.pc = append(body.pc, c)
	}
	var d0 []*Term
	if li != nil && len(li.Decreases) > 0 {
		d0 = x.evalDecreases(body, li.Decreases)
	}
	lc := &loopCtx{label: label}
	x.loops = append(x.loops, lc)
	nb := len(body.pc)
	x.coverLoop(body, s)
	end := x.execBlock(body, s.Body.List)
	x.loops = x.loops[:len(x.loops)-1]
	back := x.merge(nb, append([]*State{end}, lc.continues...))
	if back != nil {
		if s.Post != nil {
			back = x.exec(back, s.Post)
		}
		if back != nil {
			x.checkInvs(back, li, "inv-keep", s)
			if li != nil {
				// progress clauses: hold whenever control returns to the loop head
				for _, pc := range li.Progress {
					g := x.evalSpec(back, pc.Expr)
					x.oblige(back, "progress", fmt.Sprintf("loop%d.%s", li.Ordinal, pc.Label), g, s)
				}
			}
			if d0 != nil {
				d1 := x.evalDecreases(back, li.Decreases)
				x.oblige(back, "dec", fmt.Sprintf("loop%d", li.Ordinal), lexLess(d1, d0), s)
			}
		}
	}
	return x.merge(n, append([]*State{exit}, lc.breaks...))
}

func (x *Exec) execRange(st *State, s *ast.RangeStmt, label string) *State {
	li := x.loopInfo(s)
	x.loopEntry = append(x.loopEntry, st.clone())
	defer func() { x.loopEntry = x.loopEntry[:len(x.loopEntry)-1] }()
	xt := x.typeOf(s.X)
	var keyV, valV *types.Var
	bindVar := func(e ast.Expr) *types.Var {
		if e == nil {
			return nil
		}
		id, ok := e.(*ast.Ident)
		if !ok {
			x.unsupported(e, "range target is not an identifier")
		}
		if id.Name == "_" {
			return nil
		}
		if s.Tok == token.DEFINE {
			v, _ := x.info().Defs[id].(*types.Var)
			return v
		}
		v, _ := x.info().Uses[id].(*types.Var)
		return v
	}
	keyV, valV = bindVar(s.Key), bindVar(s.Value)
	setVar := func(st *State, v *types.Var, val *Term) {
		if v == nil {
			return
		}
		if x.boxed[v] {
			if s.Tok == token.DEFINE {
				x.declare(st, v, val, s)
			} else {
				x.storeAt(st, v.Type(), st.vars[v], val, s)
			}
			return
		}
		st.vars[v] = val
	}

	switch u := xt.Underlying().(type) {
	case *types.Slice:
		sl := x.eval(st, s.X)
		ln := slLen(sl)
		// exact unrolling for literal-length slices without a loop contract
		if nlit, ok := ln.intVal(); ok && (li == nil || len(li.Invariants) == 0) && nlit.IsInt64() && nlit.Int64() <= 8 {
			lc := &loopCtx{label: label}
			x.loops = append(x.loops, lc)
			n := len(st.pc)
			cur := st
			for i := int64(0); i < nlit.Int64() && cur != nil; i++ {
				setVar(cur, keyV, IntLit(i))
				if valV != nil {
					ev := x.loadTyped(cur, u.Elem(), Add(slBase(sl), IntLit(i)))
					x.assumeElemInv(cur, xt, u.Elem(), ev)
					setVar(cur, valV, ev)
				}
				lc.continues = nil
				nb := len(cur.pc)
				end := x.execBlock(cur, s.Body.List)
				cur = x.merge(nb, append([]*State{end}, lc.continues...))
			}
			x.loops = x.loops[:len(x.loops)-1]
			return x.merge(n, append([]*State{cur}, lc.breaks...))
		}
		idx := IntLit(0)
		setVar(st, keyV, idx)
		x.rangeIdx = append(x.rangeIdx, idx)
		defer func() { x.rangeIdx = x.rangeIdx[:len(x.rangeIdx)-1] }()
		x.checkInvs(st, li, "inv-init", s)
		n := len(st.pc)
		x.havocLoop(st, s.Body)
		idx = x.fresh("idx", SInt)
		x.rangeIdx[len(x.rangeIdx)-1] = idx
		st.assume(And(Le(IntLit(0), idx), Le(idx, ln)))
		setVar(st, keyV, idx)
		if valV != nil && !x.boxed[valV] {
			delete(st.vars, valV)
		}
		x.assumeInvs(st, li)
		x.iterStart = append(x.iterStart, st.clone())
		defer func() { x.iterStart = x.iterStart[:len(x.iterStart)-1] }()
		exit := st.clone()
		exit.pc = append(exit.pc, Eq(idx, ln))
		body := st.clone()
		body.pc = append(body.pc, Lt(idx, ln))
		if valV != nil {
			ev := x.loadTyped(body, u.Elem(), Add(slBase(sl), idx))
			x.assumeElemInv(body, xt, u.Elem(), ev)
			setVar(body, valV, ev)
		}
		lc := &loopCtx{label: label}
		x.loops = append(x.loops, lc)
		nb := len(body.pc)
		x.coverLoop(body, s)
		end := x.execBlock(body, s.Body.List)
		x.loops = x.loops[:len(x.loops)-1]
		back := x.merge(nb, append([]*State{end}, lc.continues...))
		if back != nil {
			setVar(back, keyV, Add(idx, IntLit(1)))
			x.rangeIdx[len(x.rangeIdx)-1] = Add(idx, IntLit(1))
			x.checkInvs(back, li, "inv-keep", s)
			x.checkProgress(back, li, s)
			x.rangeIdx[len(x.rangeIdx)-1] = idx
		}
		if keyV != nil && s.Tok == token.DEFINE {
			delete(exit.vars, keyV)
		}
		return x.merge(n, append([]*State{exit}, lc.breaks...))

	case *types.Map:
		m := x.eval(st, s.X)
		// ghost set of the keys already produced by this iteration: visited(k)
		dn, _, ks, _ := x.mapHeaps(u)
		visSort := mapSort(ks, SBool)
		dom0 := x.hread(st, dn, visSort, m)
		x.visStack = append(x.visStack, mk("((as const "+string(visSort)+") false)", visSort))
		defer func() { x.visStack = x.visStack[:len(x.visStack)-1] }()
		top := len(x.visStack) - 1
		x.checkInvs(st, li, "inv-init", s)
		n := len(st.pc)
		vis := x.fresh("visited", visSort)
		x.visStack[top] = vis
		x.havocLoop(st, s.Body)
		x.assumeInvs(st, li)
		x.iterStart = append(x.iterStart, st.clone())
		defer func() { x.iterStart = x.iterStart[:len(x.iterStart)-1] }()
		// The ghost key set is only meaningful while the map's key set is fixed:
		// no call made by the body may write maps of this type, and every direct
		// map write in the body is proved (obligation kind "frame") to go to a
		// different map. Only loops whose invariants mention visited() opt in.
		domStable := false
		if li != nil {
			for _, inv := range li.Invariants {
				ast.Inspect(inv.Expr, func(nd ast.Node) bool {
					if c, ok := nd.(*ast.CallExpr); ok && markerName(c) == "__visited" {
						domStable = true
					}
					return true
				})
			}
		}
		if domStable {
			ast.Inspect(s.Body, func(nd ast.Node) bool {
				c, ok := nd.(*ast.CallExpr)
				if !ok || strings.HasPrefix(markerName(c), "__") {
					return true
				}
				if id, ok := ast.Unparen(c.Fun).(*ast.Ident); ok {
					if _, isB := x.info().Uses[id].(*types.Builtin); isB {
						return true
					}
				}
				eff := x.p.effectsOfNodes(x.cur().fi, x.info(), c)
				if eff.Top {
					domStable = false
				} else if _, w := eff.Writes[dn]; w {
					domStable = false
				}
				return true
			})
		}
		if domStable {
			x.stableMaps = append(x.stableMaps, stableMap{dn: dn, ref: m})
			defer func() { x.stableMaps = x.stableMaps[:len(x.stableMaps)-1] }()
		}
		exit := st.clone()
		more := x.fresh("more", SBool)
		exit.pc = append(exit.pc, Not(more))
		if domStable {
			// the loop ends normally only after every key was produced
			x.nfresh++
			bv := BoundVar(fmt.Sprintf("key!q%d", x.nfresh), ks)
			exit.assume(ForallPat([]*Term{bv}, Implies(And(Neq(m, IntLit(0)), mk("select", SBool, dom0, bv)), mk("select", SBool, vis, bv)), mk("select", SBool, dom0, bv)))
		}
		body := st.clone()
		body.pc = append(body.pc, more)
		k := x.unknown(body, "key", u.Key())
		val, ok := x.mapLookup(body, u, m, k)
		body.assume(ok)
		if domStable {
			// every key is produced at most once
			body.assume(Not(mk("select", SBool, vis, k)))
		}
		setVar(body, keyV, k)
		setVar(body, valV, val)
		lc := &loopCtx{label: label}
		x.loops = append(x.loops, lc)
		nb := len(body.pc)
		x.coverLoop(body, s)
		end := x.execBlock(body, s.Body.List)
		x.loops = x.loops[:len(x.loops)-1]
		back := x.merge(nb, append([]*State{end}, lc.continues...))
		if back != nil {
			x.visStack[top] = mk("store", visSort, vis, k, tTrue)
			x.checkInvs(back, li, "inv-keep", s)
			x.checkProgress(back, li, s)
			x.visStack[top] = vis
		}
		return x.merge(n, append([]*State{exit}, lc.breaks...))

	case *types.Basic:
		if u.Info()&types.IsInteger != 0 || u.Info()&types.IsString != 0 {
			var bound *Term
			isStr := u.Info()&types.IsString != 0
			v := x.eval(st, s.X)
			if isStr {
				bound = x.strLen(v)
			} else {
				bound = v
			}
			setVar(st, keyV, IntLit(0))
			x.checkInvs(st, li, "inv-init", s)
			n := len(st.pc)
			x.havocLoop(st, s.Body)
			idx := x.fresh("idx", SInt)
			st.assume(And(Le(IntLit(0), idx), Or(Le(idx, bound), Eq(idx, IntLit(0)))))
			setVar(st, keyV, idx)
			x.assumeInvs(st, li)
			x.iterStart = append(x.iterStart, st.clone())
			defer func() { x.iterStart = x.iterStart[:len(x.iterStart)-1] }()
			exit := st.clone()
			exit.pc = append(exit.pc, Ge(idx, bound))
			body := st.clone()
			body.pc = append(body.pc, Lt(idx, bound))
			if isStr && valV != nil {
				setVar(body, valV, x.unknown(body, "rune", types.Typ[types.Rune]))
			}
			lc := &loopCtx{label: label}
			x.loops = append(x.loops, lc)
			nb := len(body.pc)
			x.coverLoop(body, s)
			end := x.execBlock(body, s.Body.List)
			x.loops = x.loops[:len(x.loops)-1]
			back := x.merge(nb, append([]*State{end}, lc.continues...))
			if back != nil {
				if isStr {
					nx := x.fresh("idx", SInt)
					back.assume(And(Lt(idx, nx), Le(nx, bound)))
					setVar(back, keyV, nx)
				} else {
					setVar(back, keyV, Add(idx, IntLit(1)))
				}
				x.checkInvs(back, li, "inv-keep", s)
				x.checkProgress(back, li, s)
			}
			return x.merge(n, append([]*State{exit}, lc.breaks...))
		}
	case *types.Chan:
		x.eval(st, s.X)
		x.checkInvs(st, li, "inv-init", s)
		n := len(st.pc)
		x.havocLoop(st, s.Body)
		x.assumeInvs(st, li)
		x.iterStart = append(x.iterStart, st.clone())
		defer func() { x.iterStart = x.iterStart[:len(x.iterStart)-1] }()
		exit := st.clone()
		more := x.fresh("more", SBool)
		exit.pc = append(exit.pc, Not(more))
		body := st.clone()
		body.pc = append(body.pc, more)
		setVar(body, keyV, x.unknown(body, "recv", u.Elem()))
		lc := &loopCtx{label: label}
		x.loops = append(x.loops, lc)
		nb := len(body.pc)
		x.coverLoop(body, s)
		end := x.execBlock(body, s.Body.List)
		x.loops = x.loops[:len(x.loops)-1]
		back := x.merge(nb, append([]*State{end}, lc.continues...))
		if back != nil {
			x.checkInvs(back, li, "inv-keep", s)
			x.checkProgress(back, li, s)
		}
		x.abstracted("range over channel")
		return x.merge(n, append([]*State{exit}, lc.breaks...))
	}
	x.unsupported(s, "range over %s", xt)
	return nil
}

// checkProgress: the progress clauses of a loop hold whenever control returns
// to the loop head (they may mention iterstart(e), the value at the start of
// the iteration).
func (x *Exec) checkProgress(back *State, li *LoopInfo, at ast.Node) {
	if li == nil {
		return
	}
	for _, pc := range li.Progress {
		g := x.evalSpec(back, pc.Expr)
		x.oblige(back, "progress", fmt.Sprintf("loop%d.%s", li.Ordinal, pc.Label), g, at)
	}
}

// ghostsChangedBy: the ghost counters the given statements may change.
func (x *Exec) ghostsChangedBy(nodes ...ast.Node) []string {
	seen := map[string]bool{}
	add := func(fi *FuncInfo) {
		if fi == nil {
			return
		}
		for _, n := range ghostsMentioned(fi) {
			seen[n] = true
		}
		for _, g := range fi.GhostSets {
			seen[g.Name] = true
		}
	}
	info := x.info()
	for _, nd := range nodes {
		if nd == nil {
			continue
		}
		ast.Inspect(nd, func(n ast.Node) bool {
			switch c := n.(type) {
			case *ast.GoStmt:
				seen["goroutines"] = true
			case *ast.CallExpr:
				if name := markerName(c); name == "__ghostat" && len(c.Args) > 0 {
					seen[strLit(c.Args[0], info)] = true
					return true
				}
				var obj types.Object
				switch f := c.Fun.(type) {
				case *ast.Ident:
					obj = info.ObjectOf(f)
				case *ast.SelectorExpr:
					obj = info.ObjectOf(f.Sel)
				}
				fn, _ := obj.(*types.Func)
				if fn == nil {
					return true
				}
				if fn.Pkg() != nil && fn.Pkg().Path() == "time" && fn.Name() == "Sleep" && x.unitTracksGhost("napped") {
					seen["napped"] = true
				}
				if fi := x.p.Funcs[fn]; fi != nil {
					add(fi)
					return true
				}
				// interface method: every implementation in the module
				if sig, ok := fn.Type().(*types.Signature); ok && sig.Recv() != nil {
					if _, isIface := sig.Recv().Type().Underlying().(*types.Interface); isIface {
						for _, t := range x.p.implementers(sig.Recv().Type()) {
							ms := types.NewMethodSet(t)
							if sel := ms.Lookup(fn.Pkg(), fn.Name()); sel != nil {
								if m, ok := sel.Obj().(*types.Func); ok {
									add(x.p.Funcs[m])
								}
							}
						}
					}
				}
			}
			return true
		})
	}
	return sortedKeys(seen)
}

// unitTracksGhost: the contract of the unit being verified talks about the
// counter (the time slept since the last poll is only tracked for units whose
// contract is about it).
func (x *Exec) unitTracksGhost(name string) bool {
	if x.top == nil {
		return false
	}
	for _, n := range ghostsMentioned(x.top) {
		if n == name {
			return true
		}
	}
	return false
}

// coverLoop: the body of a loop with a contract must be reachable from the
// invariants (invariants that contradict the loop condition make everything
// proved about the body vacuous).
func (x *Exec) coverLoop(st *State, s ast.Stmt) {
	li := x.loopInfo(s)
	if li == nil || len(li.Invariants) == 0 {
		return
	}
	x.cover(st, "cover-loop", fmt.Sprintf("loop%d.body", li.Ordinal), s)
}
