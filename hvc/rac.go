package main

import (
	"encoding/json"
	"fmt"
	"go/ast"
	"go/token"
	"os"
	"os/exec"
	"path/filepath"
	"regexp"
	"sort"
	"strings"
	"time"
)

// Runtime assertion checking: the same contracts, compiled into executable
// checks by an insertion-only overlay, so that a failed obligation can be
// replayed on the real code with concrete inputs.

func racMarkerSource(pkgName string) string {
	return "package " + pkgName + `

import (
	"fmt"
	"os"
	"runtime"
	"strings"
	"sync"
)

var __racMu sync.Mutex
var __racSeen = map[string]int{}

func __rac_emit(kind, name string) {
	__racMu.Lock()
	defer __racMu.Unlock()
	if __racSeen[kind+name] >= 40 {
		return
	}
	__racSeen[kind+name]++
	os.Stderr.WriteString(kind + " " + name + "\n")
}

func __rac_fail(name string) { __rac_emit("RAC-FAIL", name) }

func __rac_caller(skip int) string {
	pc, _, _, ok := runtime.Caller(skip)
	if !ok {
		return "?"
	}
	n := runtime.FuncForPC(pc).Name()
	n = strings.TrimPrefix(n, "github.com/smarthome-go/homescript/v3/homescript/")
	n = strings.TrimPrefix(n, "github.com/smarthome-go/homescript/v3/")
	n = strings.ReplaceAll(n, "(*", "")
	n = strings.ReplaceAll(n, ")", "")
	return n
}

func __rac_prefail(name string, args ...any) {
	__rac_emit("RAC-PREFAIL", __rac_caller(2)+"#pre:"+name)
	if os.Getenv("HVC_RACDETAIL") != "" {
		os.Stderr.WriteString("RAC-INFO-PREFAIL-ARGS " + name + " " + strings.ReplaceAll(fmt.Sprint(args...), "\n", " ") + "\n")
	}
}

func __old[T any](x T) T                         { return x }

// __snap evaluates an old() expression at function entry; a run-time panic
// while evaluating it (the precondition does not hold) yields the zero value.
func __snap[T any](f func() T) (r T) {
	defer func() { recover() }()
	return f()
}

// __guard evaluates a specification condition; a panic counts as false.
func __guard(f func() bool) (r bool) {
	defer func() {
		if e := recover(); e != nil {
			r = false
			if re, ok := e.(interface{ Error() string }); ok && __rac_contains(re.Error(), "comparing uncomparable") {
				// == on interface values holding slices/maps has no run-time meaning
				// (the specification compares structurally): undecided, not a failure
				r = true
			}
		}
	}()
	return f()
}
func __rac_contains(s, sub string) bool {
	for i := 0; i+len(sub) <= len(s); i++ {
		if s[i:i+len(sub)] == sub {
			return true
		}
	}
	return false
}
func __imp(a, b bool) bool                       { return !a || b }
func __iff(a, b bool) bool                       { return a == b }
func __fresh(x any) bool                         { return true }
func __elems(x any) any                          { return x }
func __samefn(a, b any) bool                     { return true }
func __entry[T any](x T) T                       { return x }
func __rangeindex() int                          { return 0 }
func __disjoint(a, b any) bool                   { return true }
func __ghost(name string) int                    { return 0 }
func __lastsent[T any](ch chan T) (r T)          { return }
func __sentcount[T any](ch chan T) int           { return 0 }
func __haskey[K comparable, V any](m map[K]V, k K) bool { _, ok := m[k]; return ok }
func __visited(k any) bool                       { return true }
func __forallcells[T any](f func(T) bool) bool   { return true }
func __iterstart[T any](x T) T                   { return x }
func __atcall[T any](x T) T                      { return x }
func __samecontent(a, b any) bool                { return true }
func __samemap(a, b any) bool                    { return true }
func __cancelled(ctx any) bool                   { return false }
func __rlocks(mu any) int                        { return 0 }
func __wlocked(mu any) bool                      { return false }
func __forallkeys[K comparable, V any](m map[K]V, f func(K) bool) bool {
	for k := range m {
		if !f(k) {
			return false
		}
	}
	return true
}
func __forall(lo, hi int, f func(int) bool) bool {
	for i := lo; i < hi; i++ {
		if !f(i) {
			return false
		}
	}
	return true
}
func __exists(lo, hi int, f func(int) bool) bool {
	for i := lo; i < hi; i++ {
		if f(i) {
			return true
		}
	}
	return false
}
`
}

// racExecutable: the clause uses no specification-only builtin (ghost state,
// allocation freshness, aliasing predicates), which have no run-time meaning.
var racGhostRe = regexp.MustCompile(`\b(sentcount|lastsent|ghost|fresh|samefn|sameslice|disjoint|entry|rangeindex|visited|rlocks|wlocked|samecontent|samemap|iterstart|atcall|cancelled)\(|\bin allocated\b`)

func racExecutable(text string) bool {
	if racGhostRe.MatchString(text) {
		return false
	}
	// old(...) under a quantifier may mention the bound variable: not hoistable
	if (strings.Contains(text, "forall ") || strings.Contains(text, "exists ")) && strings.Contains(text, "old(") {
		return false
	}
	return true
}

// hoistOld replaces old(E) sub-expressions by fresh variables and returns
// the rewritten text and the hoisted (name, expr) pairs.
func hoistOld(text string, counter *int) (string, [][2]string) {
	var hoists [][2]string
	var sb strings.Builder
	for i := 0; i < len(text); i++ {
		if strings.HasPrefix(text[i:], "old(") && (i == 0 || !isWordByte(text[i-1])) {
			depth := 0
			j := i + 3
			for ; j < len(text); j++ {
				if text[j] == '"' || text[j] == '\'' || text[j] == '`' {
					j = skipQuoted(text, j)
					continue
				}
				if text[j] == '(' {
					depth++
				} else if text[j] == ')' {
					depth--
					if depth == 0 {
						break
					}
				}
			}
			inner := text[i+4 : j]
			*counter++
			name := fmt.Sprintf("__o%d", *counter)
			hoists = append(hoists, [2]string{name, inner})
			sb.WriteString(name)
			i = j
			continue
		}
		sb.WriteByte(text[i])
	}
	return sb.String(), hoists
}

func isWordByte(b byte) bool {
	return b == '_' || b == '.' || (b >= 'a' && b <= 'z') || (b >= 'A' && b <= 'Z') || (b >= '0' && b <= '9')
}

func shortPkgOfDir(root, dir string) string {
	rel, _ := filepath.Rel(filepath.Join(root, "homescript"), dir)
	if rel == "." {
		return "homescript"
	}
	return rel
}

// buildOverlayRAC instruments one package directory with executable checks.
// racOldTypes: per package directory and function key, the Go type text of
// every old(...) expression of the ensures clauses in order (filled from the
// typed program when available; without it old() is evaluated eagerly).
var racOldTypes = map[string]map[string]map[string]string{}

func buildOverlayRAC(root, pkgDir string) (map[string][]byte, error) {
	oldTypes := racOldTypes[pkgDir]
	if oldTypes == nil {
		oldTypes = map[string]map[string]string{}
	}
	racMode = true
	defer func() { racMode = false }()
	files := map[string][]byte{}
	contracts, err := parseContracts(pkgDir)
	if err != nil || len(contracts) == 0 {
		return files, err
	}
	pf, err := parsePkgFiles(pkgDir)
	if err != nil {
		return nil, err
	}
	contracts = applyTemplates(contracts, pf.funcKeys)
	byKey := map[string]*Contract{}
	for _, c := range contracts {
		byKey[c.Key] = c
	}
	fset := pf.fset
	pkgName := pf.pkgName
	sp := shortPkgOfDir(root, pkgDir)
	for _, file := range pf.files {
		path, src, f := file.path, file.src, file.ast
		var ins []insertion
		for _, it := range contractTargets(f, byKey) {
			fd, c := it.fd, it.c
			if c.Flags["norac"] != "" {
				continue
			}
			off := func(p token.Pos) int { return fset.Position(p).Offset }
			full := sp + "." + c.Key
			resultName := "__ret0"
			lastErr := lastErrName(fd, src, off)
			res0 := firstResultType(fd, src, off)
			if fd.Type.Results != nil {
				named := false
				for _, fld := range fd.Type.Results.List {
					if len(fld.Names) > 0 {
						named = true
					}
				}
				if named {
					resultName = fd.Type.Results.List[0].Names[0].Name
				} else {
					k := 0
					paren := fd.Type.Results.Opening.IsValid()
					for i, fld := range fd.Type.Results.List {
						pre := fmt.Sprintf("__ret%d ", k)
						if !paren && i == 0 {
							pre = "(" + pre
						}
						ins = append(ins, insertion{off(fld.Type.Pos()), pre})
						if !paren && i == len(fd.Type.Results.List)-1 {
							ins = append(ins, insertion{off(fld.Type.End()), ")"})
						}
						k++
					}
				}
			}
			var sb strings.Builder
			sb.WriteString(" __racPre := true;")
			for _, r := range c.Requires {
				if txt, ok := substAll(r.Text, fd, lastErr, res0); ok {
					fmt.Fprintf(&sb, " __racPre = __racPre && __guard(func() bool { return %s });", specToGo(txt, resultName))
				}
			}
			var pnames []string
			if fd.Type.Params != nil {
				for _, fld := range fd.Type.Params.List {
					for _, nm := range fld.Names {
						if nm.Name != "_" {
							pnames = append(pnames, nm.Name)
						}
					}
				}
			}
			extra := ""
			if len(pnames) > 0 {
				extra = ", " + strings.Join(pnames, ", ")
			}
			fmt.Fprintf(&sb, " if !__racPre { __rac_prefail(%q%s) };", c.Key, extra)
			// free preconditions (`assumes`): assumed by the proof for every call, so a run on
			// which one is false shows the assumption - and everything proved with it - to be wrong
			for _, r := range c.Assumes {
				if strings.HasPrefix(r.Label, "scope-") {
					continue // a restriction of what the contract covers, not a claim about every call
				}
				if txt, ok := substAll(r.Text, fd, lastErr, res0); ok && racExecutable(txt) && !strings.Contains(txt, "old(") {
					fmt.Fprintf(&sb, " if __racPre && !__guard(func() bool { return %s }) { __rac_fail(%q) };", specToGo(txt, resultName), full+"#assumes:"+r.Label)
				}
			}
			counter := 0
			var checks strings.Builder
			for _, r := range c.Ensures {
				rt, ok := substAll(r.Text, fd, lastErr, res0)
				if !ok {
					continue
				}
				if !racExecutable(rt) {
					continue
				}
				txt, hoists := hoistOld(rt, &counter)
				for _, h := range hoists {
					g := specToGo(h[1], resultName)
					if ty := oldTypes[c.Key][stripSpace(g)]; ty != "" {
						fmt.Fprintf(&sb, " %s := __snap(func() %s { return %s }); _ = %s;", h[0], ty, g, h[0])
					} else {
						fmt.Fprintf(&sb, " %s := __old(%s); _ = %s;", h[0], g, h[0])
					}
				}
				fmt.Fprintf(&checks, " if !__guard(func() bool { return %s }) { __rac_fail(%q) };", specToGo(txt, resultName), full+"#post:"+r.Label)
			}
			if len(c.Ensures) > 0 {
				fmt.Fprintf(&sb, " defer func() { if r := recover(); r != nil { panic(r) }; if __racPre {%s } }();", checks.String())
			}
			ins = append(ins, insertion{off(fd.Body.Lbrace) + 1, sb.String()})
			for _, a := range c.Asserts {
				kind := "#assert:"
				if a.Assume {
					kind = "#assume:"
				}
				if a.Ghost != "" {
					continue // ghost updates have no run-time meaning
				}
				if a.Each {
					if !strings.Contains(a.Text, "old(") && racExecutable(a.Text) {
						for _, at := range stmtsContaining(fd.Body, src, off, a.After) {
							ins = append(ins, insertion{off(at.Pos()), fmt.Sprintf("if __racPre && !__guard(func() bool { return %s }) { __rac_fail(%q) }; ", specToGo(a.Text, resultName), full+kind+a.Label)})
						}
					}
					continue
				}
				if at := stmtContaining(fd.Body, src, off, a.After); at != nil && !strings.Contains(a.Text, "old(") && racExecutable(a.Text) {
					if a.Before {
						ins = append(ins, insertion{off(at.Pos()), fmt.Sprintf("if __racPre && !__guard(func() bool { return %s }) { __rac_fail(%q) }; ", specToGo(a.Text, resultName), full+kind+a.Label)})
					} else {
						ins = append(ins, insertion{off(at.End()), fmt.Sprintf("; if __racPre && !__guard(func() bool { return %s }) { __rac_fail(%q) };", specToGo(a.Text, resultName), full+kind+a.Label)})
					}
				}
			}
			loops := collectLoops(fd.Body)
			resolveNamedLoops(c, loops, src, off)
			if len(c.LoopInv) > 0 {
				for n, l := range loops {
					if _, isLoop := l.(ast.Stmt); isLoop {
						if lc := c.Loops[n+1]; lc == nil {
							c.Loops[n+1] = &LoopContract{Invariants: c.LoopInv, Decreases: c.LoopDec, merged: true}
						} else if !lc.merged {
							lc.Invariants = append(append([]Clause(nil), c.LoopInv...), lc.Invariants...)
							lc.merged = true
						}
					}
				}
			}
			for n, lc := range c.Loops {
				if n < 1 || n > len(loops) {
					continue
				}
				var lb strings.Builder
				for _, r := range lc.Invariants {
					txt, hoists := hoistOld(r.Text, &counter)
					if len(hoists) > 0 || !racExecutable(txt) {
						continue // invariants over old()/entry() are not checked at run time
					}
					fmt.Fprintf(&lb, " if __racPre && !__guard(func() bool { return %s }) { __rac_fail(%q) };", specToGo(txt, resultName), fmt.Sprintf("%s#inv:loop%d.%s", full, n, r.Label))
				}
				ins = append(ins, insertion{off(loopBody(loops[n-1]).Lbrace) + 1, lb.String()})
			}
		}
		if len(ins) == 0 {
			continue
		}
		sort.SliceStable(ins, func(i, j int) bool { return ins[i].off < ins[j].off })
		var out []byte
		prev := 0
		for _, in := range ins {
			out = append(out, src[prev:in.off]...)
			out = append(out, in.text...)
			prev = in.off
		}
		out = append(out, src[prev:]...)
		files[path] = out
	}
	if pkgName != "" {
		files[filepath.Join(pkgDir, markerFile)] = []byte(racMarkerSource(pkgName))
	}
	return files, nil
}

const replayDriver = `package homescript

import (
	"context"
	"encoding/json"
	"fmt"
	"os"
	"os/exec"
	"runtime/debug"
	"strings"
	"sync"
	"testing"
	"time"

	"github.com/smarthome-go/homescript/v3/homescript/compiler"
	"github.com/smarthome-go/homescript/v3/homescript/diagnostic"
	"github.com/smarthome-go/homescript/v3/homescript/lexer"
	"github.com/smarthome-go/homescript/v3/homescript/runtime"
	vmValue "github.com/smarthome-go/homescript/v3/homescript/runtime/value"
)

func hvcStage(name string, f func()) (ok bool) {
	defer func() {
		if r := recover(); r != nil {
			st := string(debug.Stack())
			where := "?"
			for _, ln := range strings.Split(st, "\n") {
				if strings.HasPrefix(ln, "github.com/smarthome-go/homescript/v3/homescript") && !strings.Contains(ln, "hvcStage") && !strings.Contains(ln, "TestHvcReplay") && !strings.Contains(ln, ".func") {
					where = strings.TrimPrefix(ln, "github.com/smarthome-go/homescript/v3/homescript/")
					if i := strings.LastIndex(where, "("); i > 0 {
						where = where[:i]
					}
					where = strings.ReplaceAll(strings.ReplaceAll(where, "(*", ""), ")", "")
					break
				}
			}
			fmt.Fprintf(os.Stderr, "RAC-PANIC %s stage=%s msg=%q\n", where, name, fmt.Sprint(r))
			ok = false
		}
	}()
	f()
	return true
}

// TestHvcReplayChild compiles and runs one accepted program on the VM and
// on the tree-walking interpreter.
func TestHvcReplayChild(t *testing.T) {
	idx := os.Getenv("HVC_CHILD_INDEX")
	if idx == "" {
		return
	}
	data, err := os.ReadFile(os.Getenv("HVC_REPLAY_CORPUS"))
	if err != nil {
		t.Fatal(err)
	}
	var corpus []string
	if err := json.Unmarshal(data, &corpus); err != nil {
		t.Fatal(err)
	}
	var n int
	fmt.Sscanf(idx, "%d", &n)
	text := corpus[n]
	analyzed, _, _ := Analyze(InputProgram{ProgramText: text, Filename: "replay"}, TestingAnalyzerScopeAdditions(), TestingAnalyzerHost{}, true)
	ex := TestingVmExecutor{PrintToStdout: false, PrintBuf: new(string), PintBufMutex: &sync.Mutex{}}
	comp := compiler.NewCompiler(analyzed, "replay")
	compiled, cerr := comp.Compile()
	if cerr != nil {
		return
	}
	ctx, cancel := context.WithTimeout(context.Background(), 2*time.Second)
	defer cancel()
	vm := runtime.NewVM(compiled, vmValue.Executor(ex), &ctx, &cancel, TestingVmScopeAdditions(), testingLimits)
	vm.SpawnAsync(runtime.MainFn(), nil, nil, nil)
	done := make(chan bool, 1)
	go func() { vm.Wait(); done <- true }()
	select {
	case <-done:
	case <-time.After(4 * time.Second):
		fmt.Fprintf(os.Stderr, "RAC-HANG vm\n")
	}
	// tree-walking interpreter
	ictx, icancel := context.WithTimeout(context.Background(), 2*time.Second)
	defer icancel()
	idone := make(chan bool, 1)
	go func() {
		defer func() {
			if r := recover(); r != nil {
				fmt.Fprintf(os.Stderr, "RAC-PANIC interpreter stage=run msg=%q\n", fmt.Sprint(r))
			}
			idone <- true
		}()
		Run(20000, analyzed, "replay", TestingTreeExecutor{Output: new(string)}, TestingInterpreterScopeAdditions(), &ictx)
	}()
	select {
	case <-idone:
	case <-time.After(4 * time.Second):
		fmt.Fprintf(os.Stderr, "RAC-HANG interpreter\n")
	}
}

func TestHvcReplay(t *testing.T) {
	data, err := os.ReadFile(os.Getenv("HVC_REPLAY_CORPUS"))
	if err != nil {
		t.Fatal(err)
	}
	var corpus []string
	if err := json.Unmarshal(data, &corpus); err != nil {
		t.Fatal(err)
	}
	stages := os.Getenv("HVC_REPLAY_STAGES")
	for n, text := range corpus {
		fmt.Fprintf(os.Stderr, "RAC-INPUT %d\n", n)
		hvcStage("lex", func() {
			lx := lexer.NewLexer(text, "replay")
			for i := 0; i < len(text)+8; i++ {
				tok, err := lx.NextToken()
				if err != nil || tok.Kind == lexer.EOF {
					break
				}
			}
		})
		if !strings.Contains(stages, "parse") {
			continue
		}
		done := make(chan bool, 1)
		go func() {
			defer func() { done <- true }()
			hvcStage("parse", func() { Parse(text, "replay") })
		}()
		select {
		case <-done:
		case <-time.After(5 * time.Second):
			fmt.Fprintf(os.Stderr, "RAC-HANG parse\n")
			continue
		}
		if !strings.Contains(stages, "analyze") {
			continue
		}
		accepted := false
		hvcStage("analyze", func() {
			analyzed, diags, syn := Analyze(InputProgram{ProgramText: text, Filename: "replay"}, TestingAnalyzerScopeAdditions(), TestingAnalyzerHost{}, true)
			if len(syn) > 0 {
				fmt.Fprintf(os.Stderr, "INFO-REJECTED syntax %s\n", syn[0].Message)
				return
			}
			for _, d := range diags {
				if d.Level == diagnostic.DiagnosticLevelError {
					fmt.Fprintf(os.Stderr, "INFO-REJECTED %s\n", d.Message)
					return
				}
			}
			accepted = true
			fmt.Fprintf(os.Stderr, "INFO-ACCEPTED\n")
			if !strings.Contains(stages, "run") {
				return
			}
			_ = analyzed
			// accepted programs run in a child process: a Go panic inside a VM core
			// (a goroutine) would otherwise take the whole driver down
			cmd := exec.Command(os.Args[0], "-test.run=^TestHvcReplayChild$", "-test.v")
			cmd.Env = append(os.Environ(), fmt.Sprintf("HVC_CHILD_INDEX=%d", n))
			out, err := cmd.CombinedOutput()
			for _, ln := range strings.Split(string(out), "\n") {
				if strings.HasPrefix(ln, "RAC-") {
					fmt.Fprintln(os.Stderr, ln)
				}
			}
			if err != nil {
				where, msg := "?", ""
				lines := strings.Split(string(out), "\n")
				for i, ln := range lines {
					if strings.HasPrefix(ln, "panic:") && msg == "" {
						msg = ln
					}
					if msg != "" && strings.HasPrefix(ln, "github.com/smarthome-go/homescript/v3/homescript") && !strings.Contains(ln, "TestHvcReplay") && where == "?" {
						w := strings.TrimPrefix(ln, "github.com/smarthome-go/homescript/v3/homescript/")
						if k := strings.LastIndex(w, "("); k > 0 {
							w = w[:k]
						}
						where = strings.ReplaceAll(strings.ReplaceAll(w, "(*", ""), ")", "")
					}
					_ = i
				}
				if msg == "" {
					msg = "child exited: " + err.Error()
				}
				fmt.Fprintf(os.Stderr, "RAC-PANIC %s stage=run msg=%q\n", where, msg)
			}
		})
		_ = accepted
	}
}
`

type RacRun struct {
	UnitOutput string
	Lines      []string // raw RAC-* lines in order
	ByInput    map[int][]string
	Output     string
}

// runRAC executes the replay driver over the corpus with the RAC overlay of
// the current tree. Everything is written to a scratch directory outside
// /repo and /verif/hvc and removed afterwards.
// unitTests: in-package test files (path relative to root -> source) run in
// addition to the text-driven replay; their output lines are returned in
// UnitOutput keyed by package directory.
type unitTest struct {
	pkgDir string // relative to root, e.g. homescript/lexer
	source string
}

func runRAC(root string, corpus []string, stages string, timeout time.Duration) (*RacRun, error) {
	return runRACWithUnits(root, corpus, stages, timeout, nil)
}

func runRACWithUnits(root string, corpus []string, stages string, timeout time.Duration, units []unitTest) (*RacRun, error) {
	scratch, err := os.MkdirTemp(scratchBase(), "hvc-rac-")
	if err != nil {
		return nil, err
	}
	if os.Getenv("HVC_KEEP") == "" {
		defer os.RemoveAll(scratch)
	}
	replace := map[string]string{}
	n := 0
	add := func(path string, data []byte) error {
		n++
		tmp := filepath.Join(scratch, fmt.Sprintf("f%d.go", n))
		if err := os.WriteFile(tmp, data, 0o644); err != nil {
			return err
		}
		replace[path] = tmp
		return nil
	}
	err = filepath.Walk(filepath.Join(root, "homescript"), func(path string, info os.FileInfo, err error) error {
		if err != nil || !info.IsDir() {
			return err
		}
		if _, e := os.Stat(filepath.Join(path, contractFileName)); e != nil {
			return nil
		}
		files, e := buildOverlayRAC(root, path)
		if e != nil {
			return e
		}
		for f, b := range files {
			if e := add(f, b); e != nil {
				return e
			}
		}
		return nil
	})
	if err != nil {
		return nil, err
	}
	if err := add(filepath.Join(root, "homescript", "zz_hvc_replay_test.go"), []byte(replayDriver)); err != nil {
		return nil, err
	}
	for i, u := range units {
		if err := add(filepath.Join(root, u.pkgDir, fmt.Sprintf("zz_hvc_unit%d_test.go", i)), []byte(u.source)); err != nil {
			return nil, err
		}
	}
	ov, _ := json.Marshal(map[string]any{"Replace": replace})
	ovPath := filepath.Join(scratch, "overlay.json")
	os.WriteFile(ovPath, ov, 0o644)
	cdata, _ := json.Marshal(corpus)
	cpath := filepath.Join(scratch, "corpus.json")
	os.WriteFile(cpath, cdata, 0o644)
	cmd := exec.Command("go", "test", "-tags", "verif", "-overlay", ovPath, "-vet=off", "-count=1", "-v", "-timeout", fmt.Sprintf("%ds", int(timeout.Seconds())), "-run", "^TestHvcReplay$", "./homescript/")
	cmd.Dir = root
	cmd.Env = append(os.Environ(), "GOFLAGS=-mod=mod", "GOPROXY=off", "GOSUMDB=off", "GOTOOLCHAIN=local", "HVC_REPLAY_CORPUS="+cpath, "HVC_REPLAY_STAGES="+stages)
	out, _ := cmd.CombinedOutput()
	res := &RacRun{ByInput: map[int][]string{}, Output: string(out)}
	cur := -1
	for _, ln := range strings.Split(string(out), "\n") {
		if strings.HasPrefix(ln, "RAC-INPUT ") {
			fmt.Sscanf(ln, "RAC-INPUT %d", &cur)
			continue
		}
		if strings.HasPrefix(ln, "RAC-") {
			res.Lines = append(res.Lines, ln)
			res.ByInput[cur] = append(res.ByInput[cur], ln)
		}
	}
	// unit replays: one go test run per package
	done := map[string]bool{}
	for _, u := range units {
		if done[u.pkgDir] {
			continue
		}
		done[u.pkgDir] = true
		uc := exec.Command("go", "test", "-tags", "verif", "-overlay", ovPath, "-vet=off", "-count=1", "-v", "-timeout", "60s", "-run", "^TestHvcUnit", "./"+u.pkgDir+"/")
		uc.Dir = root
		uc.Env = cmd.Env
		uout, _ := uc.CombinedOutput()
		res.UnitOutput += string(uout)
	}
	if len(corpus) > 0 && !strings.Contains(string(out), "RAC-INPUT") {
		return res, fmt.Errorf("replay driver did not run:\n%s", tail(string(out), 2000))
	}
	return res, nil
}

func tail(s string, n int) string {
	if len(s) > n {
		return s[len(s)-n:]
	}
	return s
}

func scratchBase() string {
	if d := os.Getenv("HVC_SCRATCH"); d != "" {
		os.MkdirAll(d, 0o755)
		return d
	}
	return "/var/tmp"
}
