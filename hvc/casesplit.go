package main

import (
	"fmt"
	"os"
	"strings"
)

// Case analysis over merge conditions.
//
// After an if/switch the symbolic executor merges the states of the branches:
// heaps and values become ite-terms over the branch conditions. Quantified
// facts about one branch's heap then have to be instantiated through those
// ite-terms, which the solvers often fail to do within the time limit. An
// obligation on which every solver gave up is therefore tried again as a
// complete case analysis: the conditions of the heap merges it mentions are
// fixed to true/false in every combination, the terms are simplified under
// that assignment, and each case is one query. The cases cover everything,
// so the obligation holds iff every case is unsatisfiable; a satisfiable case
// is a satisfiable instance of the original query.

// mergeConds returns the atoms of the conditions of array-sorted ite-terms
// reachable from the roots (goal first).
func mergeConds(roots []*Term, max int) []*Term {
	var out []*Term
	have := map[*Term]bool{}
	seen := map[*Term]bool{}
	var walk func(t *Term)
	walk = func(t *Term) {
		if seen[t] || len(out) >= max {
			return
		}
		seen[t] = true
		if t.Op == "ite" && len(t.Args) == 3 && strings.HasPrefix(string(t.Sort), "(Array") {
			c := t.Args[0]
			for c.Op == "not" && len(c.Args) == 1 {
				c = c.Args[0]
			}
			if !have[c] && !c.Bound && !c.isTrue() && !c.isFalse() {
				have[c] = true
				out = append(out, c)
			}
		}
		for _, a := range t.Args {
			walk(a)
		}
	}
	for _, r := range roots {
		walk(r)
	}
	return out
}

// substTerm replaces terms by m and rebuilds with the simplifying constructors.
func substTerm(t *Term, m map[*Term]*Term, memo map[*Term]*Term) *Term {
	if r, ok := m[t]; ok {
		return r
	}
	if r, ok := memo[t]; ok {
		return r
	}
	if len(t.Args) == 0 {
		return t
	}
	args := make([]*Term, len(t.Args))
	changed := false
	for i, a := range t.Args {
		args[i] = substTerm(a, m, memo)
		if args[i] != a {
			changed = true
		}
	}
	var r *Term
	switch {
	case !changed:
		r = t
	case t.QVars != nil:
		var pats []*Term
		for _, p := range t.Pats {
			pats = append(pats, substTerm(p, m, memo))
		}
		if t.Op == "forall" {
			r = ForallPat(t.QVars, args[0], pats...)
		} else {
			r = Exists(t.QVars, args[0])
		}
	case t.Op == "ite" && len(args) == 3:
		r = Ite(args[0], args[1], args[2])
	case t.Op == "and":
		r = And(args...)
	case t.Op == "or":
		r = Or(args...)
	case t.Op == "not" && len(args) == 1:
		r = Not(args[0])
	case t.Op == "=>" && len(args) == 2:
		r = Implies(args[0], args[1])
	case t.Op == "=" && len(args) == 2 && args[0].Sort == args[1].Sort:
		r = Eq(args[0], args[1])
	default:
		r = mk(t.Op, t.Sort, args...)
	}
	memo[t] = r
	return r
}

// caseSplit tries the obligation as a case analysis; it reports whether the
// obligation was decided (discharged, or refuted by a satisfiable case).
func caseSplit(o *Obligation, opts SolveOpts, timeoutS int, maxConds int) bool {
	roots := append([]*Term{o.Goal}, o.PC...)
	conds := mergeConds(roots, maxConds)
	if len(conds) == 0 {
		return false
	}
	type res struct {
		ans, solver string
		secs        float64
	}
	n := 1 << len(conds)
	rc := make(chan res, n)
	for mask := 0; mask < n; mask++ {
		mask := mask
		go func() {
			m := map[*Term]*Term{}
			var lits []*Term
			for i, c := range conds {
				if mask&(1<<i) != 0 {
					m[c] = tTrue
					lits = append(lits, c)
				} else {
					m[c] = tFalse
					lits = append(lits, Not(c))
				}
			}
			memo := map[*Term]*Term{}
			o2 := *o
			o2.PC = nil
			infeasible := false
			for _, p := range o.PC {
				q := substTerm(p, m, memo)
				if q.isFalse() {
					infeasible = true
				}
				if !q.isTrue() {
					o2.PC = append(o2.PC, q)
				}
			}
			if infeasible {
				rc <- res{"unsat", "simplifier", 0}
				return
			}
			o2.PC = append(o2.PC, lits...)
			o2.Goal = substTerm(o.Goal, m, memo)
			if o2.Goal.isTrue() {
				rc <- res{"unsat", "simplifier", 0}
				return
			}
			q := o2.buildQuery(false)
			type sres struct {
				name, ans string
				secs      float64
			}
			sc := make(chan sres, len(solvers))
			for _, sp := range solvers {
				sp := sp
				go func() {
					a, _, s := runSolver(sp, q, timeoutS)
					sc <- sres{sp.name, a, s}
				}()
			}
			best := res{"timeout", "", 0}
			for range solvers {
				r := <-sc
				best.secs += r.secs
				if r.ans == "unsat" || r.ans == "sat" {
					best.ans, best.solver = r.ans, r.name
					break
				}
				if r.ans == "unknown" {
					best.ans = "unknown"
				}
			}
			rc <- best
		}()
	}
	all := true
	solver := ""
	debug := os.Getenv("HVC_SPLITDEBUG") != ""
	if debug {
		for _, c := range conds {
			fmt.Fprintf(os.Stderr, "casesplit %s: cond #%d (%s, %d args)\n", o.Name, c.id, c.Op, len(c.Args))
		}
	}
	for i := 0; i < n; i++ {
		r := <-rc
		o.Time += r.secs
		if debug {
			fmt.Fprintf(os.Stderr, "casesplit %s: case -> %s (%s, %.1fs)\n", o.Name, r.ans, r.solver, r.secs)
		}
		if r.ans != "unsat" {
			all = false
			if r.ans == "sat" {
				o.Answer = "sat"
				o.Solver = r.solver
			}
		} else if r.solver != "simplifier" {
			solver = r.solver
		}
	}
	if all {
		o.Status = "discharged"
		o.Answer = "unsat"
		if solver == "" {
			solver = "simplifier"
		}
		o.Solver = solver
		o.CaseSplit = n
		return true
	}
	return false
}
