package main

import (
	"fmt"
	"math/big"
	"sort"
	"strings"
	"sync"
)

// Sort is an SMT-LIB sort, written as it is printed.
type Sort string

const (
	SInt   Sort = "Int"
	SBool  Sort = "Bool"
	SStr   Sort = "Str"
	SFloat Sort = "Float64"
	SSlice Sort = "Slice"
	SIface Sort = "Iface"
)

func ArraySort(elem Sort) Sort { return Sort("(Array Int " + string(elem) + ")") }

// Term is an SMT term (a DAG node). Leaves have no Args; Op is then a symbol
// or a literal. Bound is set when the term contains a quantifier-bound
// variable (such terms must not be hoisted out of the quantifier).
type Term struct {
	Op    string
	Args  []*Term
	Sort  Sort
	Bound bool
	// for quantifiers
	QVars []*Term
	Pats  []*Term
	id    int
}

var termCounter int
var internTab = map[string]*Term{}

// mk builds a hash-consed term: structurally equal terms are pointer-equal.
var internMu sync.Mutex

func mk(op string, sort Sort, args ...*Term) *Term {
	var kb strings.Builder
	kb.WriteString(op)
	kb.WriteByte(0)
	kb.WriteString(string(sort))
	for _, a := range args {
		if a == nil {
			panic("nil term arg for " + op)
		}
		fmt.Fprintf(&kb, ",%d", a.id)
	}
	key := kb.String()
	// queries are built by parallel workers, which may construct terms too
	internMu.Lock()
	defer internMu.Unlock()
	if t, ok := internTab[key]; ok {
		return t
	}
	termCounter++
	t := &Term{Op: op, Args: args, Sort: sort, id: termCounter}
	for _, a := range args {
		if a.Bound {
			t.Bound = true
		}
	}
	internTab[key] = t
	return t
}

func Sym(name string, sort Sort) *Term { return mk(name, sort) }

func BoundVar(name string, sort Sort) *Term {
	internMu.Lock()
	defer internMu.Unlock()
	termCounter++
	t := &Term{Op: name, Sort: sort, id: termCounter, Bound: true}
	internTab[name+"\x00"+string(sort)] = t
	return t
}

var (
	tTrue  = mk("true", SBool)
	tFalse = mk("false", SBool)
)

func IntLit(n int64) *Term {
	if n < 0 {
		if n == -n { // MinInt64
			return mk("(- 9223372036854775808)", SInt)
		}
		return mk(fmt.Sprintf("(- %d)", -n), SInt)
	}
	return mk(fmt.Sprintf("%d", n), SInt)
}

func BigLit(n *big.Int) *Term {
	if n.Sign() < 0 {
		return mk("(- "+new(big.Int).Neg(n).String()+")", SInt)
	}
	return mk(n.String(), SInt)
}

func BoolLit(b bool) *Term {
	if b {
		return tTrue
	}
	return tFalse
}

func (t *Term) IsLeaf() bool { return len(t.Args) == 0 && t.QVars == nil }

func (t *Term) isTrue() bool  { return t == tTrue || (t.IsLeaf() && t.Op == "true") }
func (t *Term) isFalse() bool { return t == tFalse || (t.IsLeaf() && t.Op == "false") }

// numeral value of a literal Int term, if it is one
func (t *Term) intVal() (*big.Int, bool) {
	if !t.IsLeaf() || t.Sort != SInt {
		return nil, false
	}
	s := t.Op
	neg := false
	if strings.HasPrefix(s, "(- ") && strings.HasSuffix(s, ")") {
		neg = true
		s = s[3 : len(s)-1]
	}
	if s == "" || s[0] < '0' || s[0] > '9' {
		return nil, false
	}
	n, ok := new(big.Int).SetString(s, 10)
	if !ok {
		return nil, false
	}
	if neg {
		n.Neg(n)
	}
	return n, true
}

func sameTerm(a, b *Term) bool {
	if a == b {
		return true
	}
	if a.QVars == nil && b.QVars == nil {
		return false // hash-consed
	}
	if a.Op != b.Op || len(a.Args) != len(b.Args) || a.Sort != b.Sort || a.QVars != nil || b.QVars != nil {
		return false
	}
	for i := range a.Args {
		if !sameTerm(a.Args[i], b.Args[i]) {
			return false
		}
	}
	return true
}

func Not(a *Term) *Term {
	if a.isTrue() {
		return tFalse
	}
	if a.isFalse() {
		return tTrue
	}
	if a.Op == "not" && len(a.Args) == 1 {
		return a.Args[0]
	}
	return mk("not", SBool, a)
}

func And(as ...*Term) *Term {
	var out []*Term
	for _, a := range as {
		if a.isTrue() {
			continue
		}
		if a.isFalse() {
			return tFalse
		}
		if a.Op == "and" && len(a.Args) > 0 {
			out = append(out, a.Args...)
			continue
		}
		out = append(out, a)
	}
	switch len(out) {
	case 0:
		return tTrue
	case 1:
		return out[0]
	}
	return mk("and", SBool, out...)
}

func Or(as ...*Term) *Term {
	var out []*Term
	for _, a := range as {
		if a.isFalse() {
			continue
		}
		if a.isTrue() {
			return tTrue
		}
		if a.Op == "or" && len(a.Args) > 0 {
			out = append(out, a.Args...)
			continue
		}
		out = append(out, a)
	}
	switch len(out) {
	case 0:
		return tFalse
	case 1:
		return out[0]
	}
	return mk("or", SBool, out...)
}

func Implies(a, b *Term) *Term {
	if a.isTrue() {
		return b
	}
	if a.isFalse() || b.isTrue() {
		return tTrue
	}
	if b.isFalse() {
		return Not(a)
	}
	return mk("=>", SBool, a, b)
}

func Ite(c, a, b *Term) *Term {
	if c.isTrue() {
		return a
	}
	if c.isFalse() {
		return b
	}
	if sameTerm(a, b) {
		return a
	}
	if a.Sort == SBool {
		if a.isTrue() && b.isFalse() {
			return c
		}
		if a.isFalse() && b.isTrue() {
			return Not(c)
		}
	}
	return mk("ite", a.Sort, c, a, b)
}

// knownLits: terms known (assumed) to equal an integer literal during the
// generation of the current unit; comparisons against literals fold.
var knownLits = map[*Term]*big.Int{}

func litOf(t *Term) (*big.Int, bool) {
	if v, ok := t.intVal(); ok {
		return v, true
	}
	if v, ok := knownLits[t]; ok {
		return v, true
	}
	return nil, false
}

func Eq(a, b *Term) *Term {
	if a.Sort != b.Sort {
		panic(fmt.Sprintf("Eq sort mismatch: %s : %s vs %s : %s", a, a.Sort, b, b.Sort))
	}
	if sameTerm(a, b) && a.Sort != SFloat {
		return tTrue
	}
	if a.Sort == SInt {
		if av, ok := litOf(a); ok {
			if bv, ok := litOf(b); ok {
				return BoolLit(av.Cmp(bv) == 0)
			}
		}
	}
	if a.Sort == SBool {
		if a.isTrue() {
			return b
		}
		if b.isTrue() {
			return a
		}
		if a.isFalse() {
			return Not(b)
		}
		if b.isFalse() {
			return Not(a)
		}
	}
	return mk("=", SBool, a, b)
}

func Neq(a, b *Term) *Term { return Not(Eq(a, b)) }

func cmpLit(op string, a, b *Term) (*Term, bool) {
	av, ok1 := litOf(a)
	bv, ok2 := litOf(b)
	if !ok1 || !ok2 {
		return nil, false
	}
	c := av.Cmp(bv)
	switch op {
	case "<":
		return BoolLit(c < 0), true
	case "<=":
		return BoolLit(c <= 0), true
	case ">":
		return BoolLit(c > 0), true
	case ">=":
		return BoolLit(c >= 0), true
	}
	return nil, false
}

func Lt(a, b *Term) *Term {
	if t, ok := cmpLit("<", a, b); ok {
		return t
	}
	return mk("<", SBool, a, b)
}
func Le(a, b *Term) *Term {
	if t, ok := cmpLit("<=", a, b); ok {
		return t
	}
	if sameTerm(a, b) {
		return tTrue
	}
	return mk("<=", SBool, a, b)
}
func Gt(a, b *Term) *Term { return Lt(b, a) }
func Ge(a, b *Term) *Term { return Le(b, a) }

func Add(a, b *Term) *Term {
	if av, ok := a.intVal(); ok {
		if bv, ok := b.intVal(); ok {
			return BigLit(new(big.Int).Add(av, bv))
		}
		if av.Sign() == 0 {
			return b
		}
	}
	if bv, ok := b.intVal(); ok && bv.Sign() == 0 {
		return a
	}
	return mk("+", SInt, a, b)
}

func Sub(a, b *Term) *Term {
	if av, ok := a.intVal(); ok {
		if bv, ok := b.intVal(); ok {
			return BigLit(new(big.Int).Sub(av, bv))
		}
	}
	if bv, ok := b.intVal(); ok && bv.Sign() == 0 {
		return a
	}
	return mk("-", SInt, a, b)
}

func Mul(a, b *Term) *Term {
	if av, ok := a.intVal(); ok {
		if bv, ok := b.intVal(); ok {
			return BigLit(new(big.Int).Mul(av, bv))
		}
	}
	// canonical operand order so that l*r and r*l are the same term
	if a.id > b.id {
		a, b = b, a
	}
	return mk("*", SInt, a, b)
}

func Neg(a *Term) *Term {
	if av, ok := a.intVal(); ok {
		return BigLit(new(big.Int).Neg(av))
	}
	return mk("-", SInt, a)
}

func App(fn string, sort Sort, args ...*Term) *Term { return mk(fn, sort, args...) }

func Select(arr, idx *Term) *Term {
	// elem sort from "(Array Int X)"
	s := string(arr.Sort)
	if !strings.HasPrefix(s, "(Array Int ") {
		panic("select on non-array " + s)
	}
	elem := Sort(s[len("(Array Int ") : len(s)-1])
	// read-over-write simplification for syntactically equal / distinct literal indices
	for arr.Op == "store" && len(arr.Args) == 3 {
		if sameTerm(arr.Args[1], idx) {
			return arr.Args[2]
		}
		break
	}
	return mk("select", elem, arr, idx)
}

func Store(arr, idx, v *Term) *Term {
	return mk("store", arr.Sort, arr, idx, v)
}

func Forall(vars []*Term, body *Term) *Term {
	if body.isTrue() {
		return tTrue
	}
	internMu.Lock()
	termCounter++
	t := &Term{Op: "forall", Args: []*Term{body}, Sort: SBool, id: termCounter}
	internMu.Unlock()
	t.QVars = vars
	// a closed quantifier is not "bound" from the outside
	t.Bound = false
	return t
}

func Exists(vars []*Term, body *Term) *Term {
	if body.isFalse() {
		return tFalse
	}
	internMu.Lock()
	termCounter++
	t := &Term{Op: "exists", Args: []*Term{body}, Sort: SBool, id: termCounter}
	internMu.Unlock()
	t.QVars = vars
	t.Bound = false
	return t
}

// String prints the term as a tree (no sharing). For debugging and small terms.
func (t *Term) String() string {
	var sb strings.Builder
	t.write(&sb, nil)
	return sb.String()
}

func (t *Term) write(sb *strings.Builder, names map[*Term]string) {
	if names != nil {
		if n, ok := names[t]; ok {
			sb.WriteString(n)
			return
		}
	}
	if t.QVars != nil {
		sb.WriteString("(" + t.Op + " (")
		for _, v := range t.QVars {
			sb.WriteString("(" + v.Op + " " + string(v.Sort) + ")")
		}
		sb.WriteString(") ")
		var pats []*Term
		for _, p := range t.Pats {
			if patternOK(p, map[*Term]bool{}) {
				pats = append(pats, p)
			}
		}
		if len(pats) > 0 {
			sb.WriteString("(! ")
		}
		t.Args[0].write(sb, names)
		if len(pats) > 0 {
			for _, p := range pats {
				sb.WriteString(" :pattern (")
				p.write(sb, names)
				sb.WriteString(")")
			}
			sb.WriteString(")")
		}
		sb.WriteString(")")
		return
	}
	if len(t.Args) == 0 {
		sb.WriteString(t.Op)
		return
	}
	sb.WriteString("(")
	sb.WriteString(t.Op)
	for _, a := range t.Args {
		sb.WriteString(" ")
		a.write(sb, names)
	}
	sb.WriteString(")")
}

// collect symbols (leaf ops and function ops) occurring in t
func (t *Term) walk(seen map[*Term]bool, f func(*Term)) {
	if seen[t] {
		return
	}
	seen[t] = true
	f(t)
	for _, a := range t.Args {
		a.walk(seen, f)
	}
}

// Printer prints a set of assertions with shared sub-terms hoisted into
// define-fun definitions, so DAG-shaped terms do not blow up.
type Printer struct {
	defs  []string
	names map[*Term]string
	count map[*Term]int
	n     int
}

func NewPrinter() *Printer {
	return &Printer{names: map[*Term]string{}, count: map[*Term]int{}}
}

func (p *Printer) countRefs(t *Term, seen map[*Term]bool) {
	p.count[t]++
	if seen[t] {
		return
	}
	seen[t] = true
	for _, a := range t.Args {
		p.countRefs(a, seen)
	}
}

// Prepare must be called with all root terms before Print.
func (p *Printer) Prepare(roots []*Term) {
	seen := map[*Term]bool{}
	for _, r := range roots {
		p.countRefs(r, seen)
	}
}

func (p *Printer) hoist(t *Term) {
	if _, ok := p.names[t]; ok {
		return
	}
	for _, a := range t.Args {
		p.hoist(a)
	}
	if len(t.Args) > 0 && !t.Bound && p.count[t] > 1 && t.QVars == nil {
		var sb strings.Builder
		t.write(&sb, p.names)
		if sb.Len() > 24 {
			p.n++
			name := fmt.Sprintf("t!%d", p.n)
			p.defs = append(p.defs, fmt.Sprintf("(define-fun %s () %s %s)", name, t.Sort, sb.String()))
			p.names[t] = name
		}
	}
}

func (p *Printer) Print(t *Term) string {
	p.hoist(t)
	var sb strings.Builder
	t.write(&sb, p.names)
	return sb.String()
}

func (p *Printer) Defs() []string { return p.defs }

func sortedKeys[V any](m map[string]V) []string {
	ks := make([]string, 0, len(m))
	for k := range m {
		ks = append(ks, k)
	}
	sort.Strings(ks)
	return ks
}

// patternOK: solvers reject instantiation patterns that contain logical
// connectives or if-then-else; such patterns are left out (the solver then
// chooses its own).
func patternOK(t *Term, seen map[*Term]bool) bool {
	if seen[t] {
		return true
	}
	seen[t] = true
	switch t.Op {
	case "ite", "and", "or", "not", "=>", "=", "distinct", "<=", "<", ">=", ">", "forall", "exists":
		return false
	}
	for _, a := range t.Args {
		if !patternOK(a, seen) {
			return false
		}
	}
	return true
}

// ForallPat is Forall with explicit instantiation patterns.
func ForallPat(vars []*Term, body *Term, pats ...*Term) *Term {
	t := Forall(vars, body)
	if t.QVars != nil {
		t.Pats = pats
	}
	return t
}
