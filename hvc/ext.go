package main

import (
	"fmt"
	"go/ast"
	"go/types"
)

// extCall models a call to a function outside the module (or without body).
// Every model used is recorded in x.extUsed and reported as an assumed
// external contract.
func (x *Exec) extCall(st *State, call *ast.CallExpr, fn *types.Func, args []*Term) []*Term {
	sig := fn.Type().(*types.Signature)
	pkg := ""
	if fn.Pkg() != nil {
		pkg = fn.Pkg().Path()
	}
	full := pkg + "." + fn.Name()
	if sig.Recv() != nil {
		full = pkg + "." + recvName(sig.Recv().Type()) + "." + fn.Name()
	}
	x.extUsed[full]++
	res := func() []*Term { return x.unknownResults(st, sig, fn.Name()) }
	switch full {
	case "strings.Repeat":
		x.oblige(st, "ext", "strings.Repeat count >= 0", Ge(args[1], IntLit(0)), call)
		r := res()
		x.axiom(Eq(x.app("s.len", SInt, r[0]), Mul(x.strLen(args[0]), args[1])))
		return r
	case "strings.Split":
		// deterministic; assumed: len(Split(s, sep)) == Count(s, sep) + 1 for a non-empty separator
		r := x.app("ext!strings.Split", SSlice, args...)
		cnt := x.app("ext!strings.Count", SInt, args...)
		x.axiom(And(Ge(cnt, IntLit(0)), Eq(slLen(r), Add(cnt, IntLit(1))), Le(slLen(r), slCap(r)), Gt(slBase(r), IntLit(0))))
		return []*Term{r}
	case "strings.ReplaceAll", "strings.ToLower", "strings.ToUpper", "strings.TrimSpace", "strings.Join", "strings.Trim", "strings.TrimPrefix", "strings.TrimSuffix", "strings.Title":
		// deterministic, pure: uninterpreted function of the arguments where sorts allow
		return []*Term{x.pureApp(st, full, sig, args)}
	case "strings.Contains", "strings.HasPrefix", "strings.HasSuffix", "strings.Index", "strings.Count", "strings.EqualFold", "strings.ContainsRune", "strings.IndexRune":
		return []*Term{x.pureApp(st, full, sig, args)}
	case "unicode/utf8.RuneCountInString":
		n := x.app("s.runecount", SInt, args[0])
		x.axiom(And(Le(IntLit(0), n), Le(n, x.strLen(args[0]))))
		return []*Term{n}
	case "fmt.Sprintf", "fmt.Sprint", "fmt.Sprintln", "fmt.Errorf", "errors.New":
		r := res()
		if full == "fmt.Errorf" || full == "errors.New" {
			st.assume(Neq(r[0], ifaceNil))
		}
		return r
	case "fmt.Printf", "fmt.Println", "fmt.Print", "fmt.Fprintf", "fmt.Fprintln", "fmt.Fprint":
		return res()
	case "time.Sleep":
		// ghost: time slept since the cancellation context was last polled (reset by a contract's ghostset)
		if x.unitTracksGhost("napped") {
			x.ghostSet(st, "napped", Add(x.ghostGet(st, "napped"), args[0]))
		}
		return nil
	case "os.Exit":
		st.kill()
		return nil
	case "sync.RWMutex.RLock", "sync.RWMutex.RUnlock", "sync.RWMutex.Lock", "sync.RWMutex.Unlock", "sync.Mutex.Lock", "sync.Mutex.Unlock":
		x.lockOp(st, fn.Name(), args[0], call)
		return nil
	case "sort.Strings", "sort.Ints", "sort.Slice", "sort.SliceStable":
		// permutes the elements of its argument
		if x.spec == 0 {
			x.havocSliceElems(st, call.Args[0], args[0], call)
		}
		return nil
	case "time.Now", "time.Since", "time.Duration.Seconds", "time.Duration.Milliseconds", "time.Time.Sub", "time.Time.Unix", "time.Time.UnixMilli":
		return res()
	case "context.Context.Err":
		// Err is non-nil exactly when the context is cancelled (Done closed)
		r := res()
		st.assume(Eq(Neq(r[0], ifaceNil), x.app("ctx.cancelled", SBool, args[0])))
		return r
	case "context.Cause":
		// the cause is non-nil exactly when the context is cancelled (ghost predicate ctx.cancelled)
		r := res()
		st.assume(Eq(Neq(r[0], ifaceNil), x.app("ctx.cancelled", SBool, args[0])))
		return r
	case "math.Pow", "math.Trunc", "math.Round", "math.Floor", "math.Ceil", "math.Abs", "math.Sqrt", "math.Mod", "math.IsNaN", "math.IsInf", "math.Log", "math.Sin", "math.Cos", "math.Tan", "math.Max", "math.Min", "math.Inf", "math.NaN":
		return []*Term{x.pureApp(st, full, sig, args)}
	case "strconv.Itoa", "strconv.FormatInt", "strconv.FormatFloat", "strconv.Quote", "strconv.FormatBool":
		return []*Term{x.pureApp(st, full, sig, args)}
	case "strconv.ParseInt", "strconv.ParseFloat", "strconv.Atoi", "strconv.ParseBool", "strconv.ParseUint", "strconv.Unquote":
		// deterministic functions of their arguments (value and error)
		var out []*Term
		for i := 0; i < sig.Results().Len(); i++ {
			rt := sig.Results().At(i).Type()
			r := x.app(fmt.Sprintf("ext!%s!%d", sanitize(full), i), x.p.Reg.sortOf(rt), args...)
			if !r.Bound {
				x.axiom(x.typeInvPlain(rt, r))
			}
			out = append(out, r)
		}
		return out
	}
	if purePkgs[pkg] && sig.Results().Len() == 1 && !sig.Variadic() {
		// pure and deterministic by assumption: an uninterpreted function of the arguments
		rt := sig.Results().At(0).Type()
		switch rt.Underlying().(type) {
		case *types.Basic:
			return []*Term{x.pureApp(st, full, sig, args)}
		}
	}
	if purePkgs[pkg] {
		// pure by assumption: results unknown, heaps untouched except fresh result cells
		r := res()
		for i := 0; i < sig.Results().Len(); i++ {
			if _, ok := sig.Results().At(i).Type().Underlying().(*types.Slice); ok {
				x.freshSlice(st, r[i])
			}
		}
		return r
	}
	x.abstracted("external call " + full + " (all heaps forgotten)")
	if x.spec == 0 {
		x.callFrameCheck(st, &Effects{Top: true}, call)
		x.havocAllHeaps(st)
	}
	return res()
}

func recvName(t types.Type) string {
	if p, ok := t.(*types.Pointer); ok {
		t = p.Elem()
	}
	if n, ok := t.(*types.Named); ok {
		return n.Obj().Name()
	}
	return t.String()
}

// pureApp: deterministic external function as an uninterpreted function
func (x *Exec) pureApp(st *State, name string, sig *types.Signature, args []*Term) *Term {
	rt := sig.Results().At(0).Type()
	r := x.app("ext!"+sanitize(name), x.p.Reg.sortOf(rt), args...)
	if !r.Bound {
		tmp := &State{alloc: st.alloc}
		inv := x.typeInv(rt, r, tmp, 0)
		if _, isSlice := rt.Underlying().(*types.Slice); !isSlice {
			x.axiom(inv)
		}
	}
	return r
}

// the cells of a slice returned by external code are fresh
func (x *Exec) freshSlice(st *State, s *Term) {
	// the result's cells lie in newly allocated space
	pre := st.alloc
	na := x.fresh("alloc", SInt)
	st.assume(And(Ge(na, pre)))
	st.assume(Or(Eq(slCap(s), IntLit(0)), And(Ge(slBase(s), pre), Le(Add(slBase(s), slCap(s)), na))))
	st.alloc = na
}

func (x *Exec) havocSliceElems(st *State, e ast.Expr, s *Term, at ast.Node) {
	t, ok := x.typeOf(e).Underlying().(*types.Slice)
	if !ok {
		x.havocAllHeaps(st)
		return
	}
	c := &effCollector{p: x.p, info: x.info(), eff: newEffects()}
	heaps := map[string]Sort{}
	c.cellHeaps(t.Elem(), heaps)
	for _, name := range sortedKeys(heaps) {
		if x.hasMod {
			x.frameCheckRange(st, name, s, at)
		}
		x.linkFresh(st, name, heaps[name], func(r *Term) *Term {
			return Or(Lt(r, slBase(s)), Ge(r, Add(slBase(s), slLen(s))))
		})
	}
}

// ---------------------------------------------------------------- ghost lock discipline

// lockOp tracks, per mutex reference, the number of read locks held by this
// thread and whether it holds the write lock. Unlocking a lock that is not
// held is a run-time fatal error ("unlock of unlocked mutex") and therefore an
// obligation; acquiring the write lock while holding a read lock of the same
// mutex self-deadlocks and is an obligation too.
func (x *Exec) lockOp(st *State, op string, mu *Term, at ast.Node) {
	if x.spec > 0 {
		return
	}
	r := x.hread(st, "ghost$rlocks", SInt, mu)
	w := x.hread(st, "ghost$wlocked", SBool, mu)
	setR := func(v *Term) { x.setHeap(st, "ghost$rlocks", Store(x.heap(st, "ghost$rlocks", SInt), mu, v)) }
	setW := func(v *Term) { x.setHeap(st, "ghost$wlocked", Store(x.heap(st, "ghost$wlocked", SBool), mu, v)) }
	switch op {
	case "RLock":
		x.oblige(st, "lock", "RLock while holding the write lock", Not(w), at)
		setR(Add(r, IntLit(1)))
	case "RUnlock":
		x.oblige(st, "lock", "RUnlock without RLock", Gt(r, IntLit(0)), at)
		setR(Sub(r, IntLit(1)))
	case "Lock":
		x.oblige(st, "lock", "Lock while holding a lock of the same mutex", And(Eq(r, IntLit(0)), Not(w)), at)
		setW(tTrue)
	case "Unlock":
		x.oblige(st, "lock", "Unlock without Lock", w, at)
		setW(tFalse)
	}
}
