package main

import (
	"fmt"
	"go/ast"
	"go/token"
	"go/types"
	"path/filepath"
	"sort"
	"strings"
)

func (x *Exec) evalSpec(st *State, e ast.Expr) *Term {
	x.spec++
	defer func() { x.spec-- }()
	if e == nil {
		x.unsupported(nil, "malformed spec clause")
	}
	return x.eval(st, e)
}

// ---------------------------------------------------------------- entry point for calls

func (x *Exec) evalCall(st *State, call *ast.CallExpr) []*Term {
	info := x.info()
	if tv, ok := info.Types[call.Fun]; ok && tv.IsType() {
		return []*Term{x.evalConversion(st, call, tv.Type)}
	}
	fun := ast.Unparen(call.Fun)
	// generic instantiation f[T](...)
	if ix, ok := fun.(*ast.IndexExpr); ok {
		if _, isFn := info.Types[ix.X].Type.(*types.Signature); isFn {
			fun = ix.X
		}
	}
	switch f := fun.(type) {
	case *ast.Ident:
		switch o := info.Uses[f].(type) {
		case *types.Builtin:
			return x.evalBuiltin(st, call, o.Name())
		case *types.Func:
			if strings.HasPrefix(o.Name(), "__") && o.Pkg() != nil && strings.HasPrefix(o.Pkg().Path(), modPath) {
				return []*Term{x.evalMarker(st, call, o.Name())}
			}
			return x.callStatic(st, call, o, nil, nil)
		case *types.Var:
			return x.callValue(st, call, o)
		}
	case *ast.SelectorExpr:
		if sel, ok := info.Selections[f]; ok {
			switch sel.Kind() {
			case types.MethodVal:
				return x.callMethod(st, call, f, sel)
			case types.FieldVal:
				return x.callDynamic(st, call)
			}
		} else {
			switch o := info.Uses[f.Sel].(type) {
			case *types.Func:
				return x.callStatic(st, call, o, nil, nil)
			case *types.Var:
				return x.callDynamic(st, call)
			case *types.Builtin:
				return x.evalBuiltin(st, call, o.Name())
			}
		}
	case *ast.FuncLit:
		fi := x.litInfo(f)
		args := x.evalArgs(st, call, fi.sig(), nil)
		return x.inlineCall(st, fi, nil, args, call)
	}
	return x.callDynamic(st, call)
}

func (fi *FuncInfo) sig() *types.Signature {
	if fi.Lit != nil {
		return fi.Pkg.TypesInfo.Types[fi.Lit].Type.(*types.Signature)
	}
	return fi.Obj.Type().(*types.Signature)
}

var litInfos = map[*ast.FuncLit]*FuncInfo{}

func (x *Exec) litInfo(fl *ast.FuncLit) *FuncInfo {
	if fi, ok := litInfos[fl]; ok {
		return fi
	}
	cur := x.cur().fi
	fi := &FuncInfo{Lit: fl, Pkg: cur.Pkg, Key: cur.Key + ".func", Flags: map[string]string{}, Loops: map[ast.Stmt]*LoopInfo{}, markers: map[ast.Stmt]bool{}}
	sig := fi.sig()
	if sig.Results().Len() > 0 && sig.Results().At(0).Name() != "" {
		for i := 0; i < sig.Results().Len(); i++ {
			fi.Results = append(fi.Results, sig.Results().At(i))
		}
	}
	fi.LoopList = collectLoops(fl.Body)
	for i, l := range fi.LoopList {
		fi.Loops[l] = &LoopInfo{Ordinal: i + 1}
	}
	litInfos[fl] = fi
	return fi
}

// evalArgs evaluates call arguments against the parameter types, packing
// variadic arguments into a fresh slice.
func (x *Exec) evalArgs(st *State, call *ast.CallExpr, sig *types.Signature, pre []*Term) []*Term {
	args := append([]*Term(nil), pre...)
	np := sig.Params().Len()
	// f(g()) with multi-value g
	if len(call.Args) == 1 && np > 1 {
		if tup, ok := x.typeOf(call.Args[0]).(*types.Tuple); ok {
			vals := x.evalMulti(st, call.Args[0], tup.Len())
			for i, v := range vals {
				if i < np {
					v = x.convert(st, v, tup.At(i).Type(), sig.Params().At(i).Type())
				}
				args = append(args, v)
			}
			return args
		}
	}
	for i := 0; i < np; i++ {
		pt := sig.Params().At(i).Type()
		if sig.Variadic() && i == np-1 {
			if call.Ellipsis.IsValid() {
				args = append(args, x.evalAs(st, call.Args[i], pt))
				break
			}
			elemT := pt.(*types.Slice).Elem()
			rest := call.Args[i:]
			if len(rest) == 0 {
				args = append(args, nilSlice)
				break
			}
			n := int64(len(rest))
			base := x.allocRefs(st, IntLit(n))
			for j, a := range rest {
				v := x.evalAs(st, a, elemT)
				x.storeAt(st, elemT, Add(base, IntLit(int64(j))), v, a)
			}
			args = append(args, mkSlice(base, IntLit(n), IntLit(n)))
			break
		}
		if i >= len(call.Args) {
			x.unsupported(call, "too few arguments")
		}
		args = append(args, x.evalAs(st, call.Args[i], pt))
	}
	return args
}

// ---------------------------------------------------------------- methods

func (x *Exec) callMethod(st *State, call *ast.CallExpr, f *ast.SelectorExpr, sel *types.Selection) []*Term {
	m := sel.Obj().(*types.Func)
	recvStatic := x.typeOf(f.X)
	if isIfaceType(sel.Recv()) && len(sel.Index()) == 1 {
		return x.callInterface(st, call, f, m)
	}
	if len(sel.Index()) != 1 {
		x.unsupported(call, "promoted method %s", m.Name())
	}
	sig := m.Type().(*types.Signature)
	_, ptrRecv := sig.Recv().Type().(*types.Pointer)
	_, xIsPtr := recvStatic.Underlying().(*types.Pointer)
	if m.Pkg() != nil && m.Pkg().Path() == "sync" && !xIsPtr {
		switch recvName(sig.Recv().Type()) + "." + m.Name() {
		case "RWMutex.RLock", "RWMutex.RUnlock", "RWMutex.Lock", "RWMutex.Unlock", "Mutex.Lock", "Mutex.Unlock":
			// a mutex held in a struct field: its identity is the field of its
			// enclosing object, not a temporary address
			if id, ok := x.lockIdentity(st, f.X); ok {
				x.extUsed["sync."+recvName(sig.Recv().Type())+"."+m.Name()]++
				x.lockOp(st, m.Name(), id, call)
				return nil
			}
		}
	}
	var recv *Term
	var writeBack func(st *State)
	switch {
	case ptrRecv && xIsPtr:
		recv = x.eval(st, f.X)
	case ptrRecv && !xIsPtr:
		// address of an addressable operand: boxed variables and slice elements
		// have real addresses; everything else is passed copy-in/copy-out.
		if ref, ok := x.tryAddress(st, f.X); ok {
			recv = ref
		} else {
			pl := x.place(st, f.X)
			v := x.readPlace(st, pl)
			ref := x.allocRefs(st, IntLit(1))
			saved := x.spec
			x.spec++ // the temporary is not subject to frame checks
			x.storeAt(st, recvStatic, ref, v, call)
			x.spec = saved
			recv = ref
			writeBack = func(st *State) {
				nv := x.loadAt(st, recvStatic, ref)
				x.writePlace(st, pl, nv, call)
			}
			x.note("copy-in/copy-out receiver for %s at %s", m.Name(), x.p.relPos(call))
		}
	case !ptrRecv && xIsPtr:
		p := x.eval(st, f.X)
		x.derefCheck(st, p, f)
		recv = x.loadTyped(st, recvStatic.Underlying().(*types.Pointer).Elem(), p)
	default:
		recv = x.eval(st, f.X)
	}
	rs := x.callStatic(st, call, m, recv, nil)
	if writeBack != nil {
		writeBack(st)
	}
	return rs
}

// lockIdentity: a stable identity for a mutex denoted by an addressable
// expression: the mutex field (by path) of the object that contains it.
func (x *Exec) lockIdentity(st *State, e ast.Expr) (*Term, bool) {
	if ref, ok := x.tryAddress(st, e); ok {
		return ref, true
	}
	defer func() { recover() }()
	pl := x.place(st, e)
	switch pl.kind {
	case plCell:
		return x.app("lockid!"+sanitize(typeStr(pl.typ))+"!"+strings.Trim(strings.ReplaceAll(fmt.Sprint(pl.path), " ", "_"), "[]"), SInt, pl.ref), true
	case plGlobal:
		return x.app("lockid!"+sanitize(pl.gheap)+"!"+strings.Trim(strings.ReplaceAll(fmt.Sprint(pl.path), " ", "_"), "[]"), SInt, IntLit(0)), true
	}
	return nil, false
}

func (x *Exec) tryAddress(st *State, e ast.Expr) (*Term, bool) {
	e = ast.Unparen(e)
	switch t := e.(type) {
	case *ast.Ident:
		if o, ok := x.info().ObjectOf(t).(*types.Var); ok && x.boxed[o] {
			return st.vars[o], true
		}
	case *ast.IndexExpr:
		if _, ok := x.typeOf(t.X).Underlying().(*types.Slice); ok {
			return x.addressOf(st, t, t), true
		}
	case *ast.StarExpr:
		return x.eval(st, t.X), true
	}
	return nil, false
}

func (x *Exec) callInterface(st *State, call *ast.CallExpr, f *ast.SelectorExpr, m *types.Func) []*Term {
	it := x.typeOf(f.X)
	v := x.eval(st, f.X)
	sig := m.Type().(*types.Signature)
	if opts, ok := x.p.PureMethods[filepath.Dir(x.p.Fset.Position(x.top.Decl.Pos()).Filename)+"|"+typeStr(it)+"."+m.Name()]; ok && sig.Params().Len() == 0 && sig.Results().Len() == 1 {
		// assumed: a deterministic function of the receiver value (listed in the evidence)
		if x.spec == 0 {
			x.oblige(st, "nil", "", Neq(v, ifaceNil), call)
		}
		msg := "assumed pure: " + typeStr(it) + "." + m.Name() + " is a deterministic function of its receiver value (the receiver's data is immutable)"
		seen := false
		for _, a := range x.assumed {
			if a == msg {
				seen = true
			}
		}
		if !seen {
			x.assumed = append(x.assumed, msg)
		}
		rt := sig.Results().At(0).Type()
		r := x.app("pure!"+sanitize(typeStr(it)+"."+m.Name()), x.p.Reg.sortOf(rt), v)
		if strings.Contains(opts, "nonnil") && !r.Bound {
			x.axiom(Implies(Neq(v, ifaceNil), Neq(r, x.zero(rt))))
		}
		return []*Term{r}
	}
	if !x.p.closedWorld(it) {
		args := x.evalArgs(st, call, sig, nil)
		_ = args
		switch m.Name() {
		case "Error", "String", "Done", "Err", "Deadline", "Value", "Unwrap":
			x.oblige(st, "nil", "", Neq(v, ifaceNil), call)
			r := x.unknownResults(st, sig, m.Name())
			if m.Name() == "Err" && typeStr(it) == "context.Context" && len(r) == 1 {
				// Err is non-nil exactly when the context is cancelled (its Done channel is closed)
				st.assume(Eq(Neq(r[0], ifaceNil), x.app("ctx.cancelled", SBool, v)))
			}
			return r
		}
		x.abstracted("call through open interface " + typeStr(it) + "." + m.Name())
		x.oblige(st, "nil", "", Neq(v, ifaceNil), call)
		x.havocAllHeaps(st)
		return x.unknownResults(st, sig, m.Name())
	}
	x.oblige(st, "nil", "", Neq(v, ifaceNil), call)
	impls := x.p.implementers(it)
	type target struct {
		t  types.Type
		fi *FuncInfo
		fn *types.Func
	}
	var targets []target
	allInline := true
	for _, t := range impls {
		ms := types.NewMethodSet(t)
		s := ms.Lookup(m.Pkg(), m.Name())
		if s == nil {
			continue
		}
		fn := s.Obj().(*types.Func).Origin()
		fi := x.p.Funcs[fn]
		targets = append(targets, target{t, fi, fn})
		if fi == nil || !x.inlinable(fi) || len(s.Index()) != 1 {
			allInline = false
		}
	}
	args := x.evalArgs(st, call, sig, nil)
	allContract := len(targets) > 0
	for _, tg := range targets {
		if tg.fi == nil || !tg.fi.hasContract() {
			allContract = false
		}
	}
	if !allInline && allContract && x.spec == 0 && len(targets) <= 64 {
		// every implementation carries a contract: dispatch over the dynamic type
		// and use the implementation's contract (behavioural subtyping is checked
		// where each implementation is verified)
		n := len(st.pc)
		var ends []*State
		rv := x.retVars(sig)
		for _, tg := range targets {
			c := x.p.Reg.ctorFor(tg.t)
			bs := st.clone()
			bs.pc = append(bs.pc, isBox(c, v))
			payload := unbox(c, v)
			bs.assume(x.typeInv(tg.t, payload, bs, 1))
			recv := payload
			msig := tg.fn.Type().(*types.Signature)
			_, ptrRecv := msig.Recv().Type().(*types.Pointer)
			_, tIsPtr := tg.t.(*types.Pointer)
			if ptrRecv && !tIsPtr {
				x.unsupported(call, "pointer method on boxed value")
			}
			if !ptrRecv && tIsPtr {
				recv = x.loadTyped(bs, tg.t.(*types.Pointer).Elem(), payload)
			}
			rs := x.contractCall(bs, tg.fi, append([]*Term{recv}, args...), call)
			if bs.dead() {
				continue
			}
			for j, r := range rs {
				bs.vars[rv[j]] = r
			}
			ends = append(ends, bs)
		}
		mg := x.merge(n, ends)
		if mg == nil {
			st.kill()
			return x.unknownResults(st, sig, m.Name())
		}
		*st = *mg
		var out []*Term
		for _, r := range rv {
			out = append(out, st.vars[r])
			delete(st.vars, r)
		}
		return out
	}
	if allInline && len(targets) > 0 && len(targets) <= 64 {
		n := len(st.pc)
		var ends []*State
		var results [][]*Term
		for _, tg := range targets {
			c := x.p.Reg.ctorFor(tg.t)
			bs := st.clone()
			bs.pc = append(bs.pc, isBox(c, v))
			payload := unbox(c, v)
			recv := payload
			msig := tg.fn.Type().(*types.Signature)
			_, ptrRecv := msig.Recv().Type().(*types.Pointer)
			_, tIsPtr := tg.t.(*types.Pointer)
			if ptrRecv && !tIsPtr {
				x.unsupported(call, "pointer method on boxed value")
			}
			if !ptrRecv && tIsPtr {
				recv = x.loadTyped(bs, tg.t.(*types.Pointer).Elem(), payload)
			}
			rs := x.inlineCall(bs, tg.fi, recv, args, call)
			if bs.dead() {
				continue
			}
			ends = append(ends, bs)
			results = append(results, rs)
		}
		if len(ends) == 0 {
			st.kill()
			return x.unknownResults(st, sig, m.Name())
		}
		// merge with result values carried through synthetic variables
		rv := x.retVars(sig)
		for i, e := range ends {
			for j, r := range results[i] {
				e.vars[rv[j]] = r
			}
		}
		mg := x.merge(n, ends)
		*st = *mg
		var out []*Term
		for _, v := range rv {
			out = append(out, st.vars[v])
			delete(st.vars, v)
		}
		return out
	}
	// abstract dispatch: union of the effects of all implementations
	eff := newEffects()
	for _, tg := range targets {
		if tg.fi == nil {
			eff.Top = true
			continue
		}
		eff.union(x.p.effects(tg.fi))
	}
	x.abstracted("dynamic dispatch " + typeStr(it) + "." + m.Name() + " (effects of all implementations)")
	if x.spec == 0 {
		x.callFrameCheck(st, eff, call)
		x.applyEffects(st, eff, nil, nil)
	}
	return x.unknownResults(st, sig, m.Name())
}

var retVarCache = map[string][]*types.Var{}

func (x *Exec) retVars(sig *types.Signature) []*types.Var {
	key := sig.String()
	if vs, ok := retVarCache[key]; ok {
		return vs
	}
	var vs []*types.Var
	for i := 0; i < sig.Results().Len(); i++ {
		vs = append(vs, types.NewVar(token.NoPos, nil, fmt.Sprintf("$ret%d", i), sig.Results().At(i).Type()))
	}
	retVarCache[key] = vs
	return vs
}

func (x *Exec) unknownResults(st *State, sig *types.Signature, name string) []*Term {
	var out []*Term
	for i := 0; i < sig.Results().Len(); i++ {
		out = append(out, x.unknown(st, name, sig.Results().At(i).Type()))
	}
	return out
}

// a call whose effects are unknown locations of whole heaps, inside a unit
// with a modifies clause, cannot satisfy the frame unless it writes nothing
func (x *Exec) callFrameCheck(st *State, eff *Effects, at ast.Node) {
	if !x.hasMod || x.spec > 0 {
		return
	}
	if eff.Top {
		x.oblige(st, "frame", "call with unknown effects", tFalse, at)
		return
	}
	for _, name := range sortedKeys(eff.Writes) {
		// writes to an unknown location of this heap
		ok := false
		_ = ok
		x.oblige(st, "frame", "callee writes "+name, tFalse, at)
	}
}

// ---------------------------------------------------------------- dynamic calls

func (x *Exec) callValue(st *State, call *ast.CallExpr, v *types.Var) []*Term {
	if fl, ok := st.closures[v]; ok {
		fi := x.litInfo(fl)
		args := x.evalArgs(st, call, fi.sig(), nil)
		return x.inlineCall(st, fi, nil, args, call)
	}
	// a variable holding one of several named functions: dispatch statically
	if !x.boxed[v] {
		if t, ok := st.vars[v]; ok {
			if leaves, ok := x.fnLeaves(t, tTrue); ok {
				sig := x.typeOf(call.Fun).Underlying().(*types.Signature)
				n := len(st.pc)
				var ends []*State
				rv := x.retVars(sig)
				for _, lf := range leaves {
					bs := st.clone()
					bs.pc = append(bs.pc, lf.guard)
					rs := x.callStatic(bs, call, lf.fn, nil, nil)
					if bs.dead() {
						continue
					}
					for j, r := range rs {
						bs.vars[rv[j]] = r
					}
					ends = append(ends, bs)
				}
				mg := x.merge(n, ends)
				if mg == nil {
					st.kill()
					return x.unknownResults(st, sig, "fn")
				}
				*st = *mg
				var out []*Term
				for _, r := range rv {
					out = append(out, st.vars[r])
					delete(st.vars, r)
				}
				return out
			}
		}
	}
	return x.callDynamic(st, call)
}

type fnLeaf struct {
	guard *Term
	fn    *types.Func
}

// fnLeaves decomposes an if-then-else tree over named-function constants.
func (x *Exec) fnLeaves(t *Term, guard *Term) ([]fnLeaf, bool) {
	if t.Op == "ite" && len(t.Args) == 3 {
		a, ok1 := x.fnLeaves(t.Args[1], And(guard, t.Args[0]))
		b, ok2 := x.fnLeaves(t.Args[2], And(guard, Not(t.Args[0])))
		return append(a, b...), ok1 && ok2
	}
	if fn, ok := x.fnSyms[t.Op]; ok && t.IsLeaf() {
		return []fnLeaf{{guard, fn}}, true
	}
	return nil, false
}

func (x *Exec) callDynamic(st *State, call *ast.CallExpr) []*Term {
	ft := x.typeOf(call.Fun)
	sig, ok := ft.Underlying().(*types.Signature)
	if !ok {
		x.unsupported(call, "call of non-function %s", ft)
	}
	fv := x.eval(st, call.Fun)
	x.oblige(st, "nil", "", Neq(fv, IntLit(0)), call)
	x.evalArgs(st, call, sig, nil)
	if x.spec > 0 {
		x.unsupported(call, "call through function value in specification")
	}
	if x.top.Flag("dyncalls-pure") {
		// assumed (listed in the evidence): the function values this unit calls have no side effects
		msg := fmt.Sprintf("%s assumes the function values it calls have no side effects", x.top.Name())
		seen := false
		for _, a := range x.assumed {
			if a == msg {
				seen = true
			}
		}
		if !seen {
			x.assumed = append(x.assumed, msg)
		}
		return x.unknownResults(st, sig, "dyn")
	}
	x.abstracted("call through function value (all heaps forgotten)")
	x.callFrameCheck(st, &Effects{Top: true}, call)
	x.havocAllHeapsDyn(st)
	return x.unknownResults(st, sig, "dyn")
}

// ---------------------------------------------------------------- static calls

func (x *Exec) inlinable(fi *FuncInfo) bool {
	if fi.Body() == nil {
		return false
	}
	if fi.Flag("inline") {
		return true
	}
	if fi.hasContract() {
		return false
	}
	if len(fi.LoopList) > 0 {
		return false
	}
	if fi.Lit == nil && x.p.isRecursive(fi) {
		return false
	}
	// size limit
	n := 0
	ast.Inspect(fi.Body(), func(node ast.Node) bool {
		if _, ok := node.(ast.Stmt); ok {
			n++
		}
		return true
	})
	return n <= 40
}

func (fi *FuncInfo) hasContract() bool {
	return len(fi.Requires) > 0 || len(fi.Ensures) > 0 || fi.HasMod || fi.Flag("trusted") || fi.Flag("abstract") || fi.Flag("nopanic")
}

func (x *Exec) callStatic(st *State, call *ast.CallExpr, fn *types.Func, recv *Term, _ any) []*Term {
	fn = fn.Origin()
	sig := fn.Type().(*types.Signature)
	fi := x.p.Funcs[fn]
	var pre []*Term
	if recv != nil {
		pre = []*Term{recv}
	}
	if fi == nil || fi.Body() == nil {
		args := x.evalArgs(st, call, sig, pre)
		return x.extCall(st, call, fn, args)
	}
	args := x.evalArgs(st, call, sig, pre)
	if x.spec > 0 {
		return x.pureCall(st, fi, args, call)
	}
	if x.inlinable(fi) && x.inlining[fn] == 0 && len(x.frames) < 12 {
		var r *Term
		if recv != nil {
			r = args[0]
			args = args[1:]
		}
		return x.inlineCall(st, fi, r, args, call)
	}
	return x.contractCall(st, fi, args, call)
}

// bind parameters (receiver first, when present in args)
func (x *Exec) bindParams(st *State, fi *FuncInfo, args []*Term, at ast.Node) {
	sig := fi.sig()
	i := 0
	if sig.Recv() != nil {
		x.declare(st, sig.Recv(), args[0], at)
		i = 1
	}
	for j := 0; j < sig.Params().Len(); j++ {
		if i+j >= len(args) {
			x.unsupported(at, "argument count mismatch calling %s", fi.Key)
		}
		x.declare(st, sig.Params().At(j), args[i+j], at)
	}
}

func (x *Exec) pushFrame(fi *FuncInfo) *Frame {
	fr := &Frame{fi: fi, info: fi.Pkg.TypesInfo, sig: fi.sig(), results: fi.Results}
	x.frames = append(x.frames, fr)
	x.loops = append(x.loops, nil)
	x.computeBoxed(fi)
	return fr
}

func (x *Exec) popFrame() {
	x.frames = x.frames[:len(x.frames)-1]
	x.loops = x.loops[:len(x.loops)-1]
}

// computeBoxed marks the local variables of fi whose address is taken.
func (x *Exec) computeBoxed(fi *FuncInfo) {
	body := fi.Body()
	if body == nil || x.boxDone[body] {
		return
	}
	x.boxDone[body] = true
	info := fi.Pkg.TypesInfo
	ast.Inspect(body, func(n ast.Node) bool {
		if ue, ok := n.(*ast.UnaryExpr); ok && ue.Op == token.AND {
			if id, ok := ast.Unparen(ue.X).(*ast.Ident); ok {
				if v, ok := info.ObjectOf(id).(*types.Var); ok && !(v.Pkg() != nil && v.Parent() == v.Pkg().Scope()) {
					x.boxed[v] = true
				}
			}
		}
		return true
	})
}

func (x *Exec) inlineCall(st *State, fi *FuncInfo, recv *Term, args []*Term, call *ast.CallExpr) []*Term {
	key := fi.Obj
	if key != nil {
		x.inlining[key]++
		defer func() { x.inlining[key]-- }()
	}
	before := map[*types.Var]bool{}
	for k := range st.vars {
		before[k] = true
	}
	fr := x.pushFrame(fi)
	fr.allocIn = st.alloc
	all := args
	if recv != nil {
		all = append([]*Term{recv}, args...)
	}
	x.bindParams(st, fi, all, call)
	sig := fi.sig()
	if len(fi.Results) > 0 {
		for _, rv := range fi.Results {
			x.declare(st, rv, x.zero(rv.Type()), call)
		}
	}
	n := len(st.pc)
	work := st.clone()
	end := x.execBlock(work, fi.Body().List)
	if end != nil {
		x.doReturn(end, nil, call, true)
	}
	rets := fr.rets
	x.popFrame()
	if x.spec > 0 && len(rets) > 0 {
		// pure evaluation: the result is an if-then-else chain over the
		// path conditions of the returns; the caller's state is untouched
		nres := sig.Results().Len()
		out := make([]*Term, nres)
		for j := 0; j < nres; j++ {
			r := rets[len(rets)-1].vals[j]
			for i := len(rets) - 2; i >= 0; i-- {
				r = Ite(And(rets[i].st.pc[n:]...), rets[i].vals[j], r)
			}
			out[j] = r
		}
		for k := range st.vars {
			if !before[k] {
				delete(st.vars, k)
			}
		}
		return out
	}
	rv := x.retVars(sig)
	var ends []*State
	for _, r := range rets {
		for j, v := range r.vals {
			r.st.vars[rv[j]] = v
		}
		ends = append(ends, r.st)
	}
	mg := x.merge(n, ends)
	if mg == nil {
		// the callee never returns normally on this path
		st.kill()
		return x.unknownResults(st, sig, fi.Key)
	}
	*st = *mg
	var out []*Term
	for _, v := range rv {
		out = append(out, st.vars[v])
	}
	for k := range st.vars {
		if !before[k] {
			delete(st.vars, k)
		}
	}
	return out
}

// doReturn handles a return in the current frame.
func (x *Exec) doReturn(st *State, vals []*Term, at ast.Node, implicit bool) {
	fr := x.cur()
	sig := fr.sig
	if vals == nil && sig.Results().Len() > 0 {
		// bare return with named results
		if len(fr.fi.Results) == sig.Results().Len() && sig.Results().At(0).Name() != "" {
			for _, rv := range fr.fi.Results {
				vals = append(vals, x.readPlace(st, x.varPlace(st, rv)))
			}
		} else if implicit {
			x.unsupported(at, "missing return")
		}
	}
	// deferred calls of this frame, last in first out
	var mine []deferred
	var rest []deferred
	for _, d := range st.defers {
		if d.frame == fr {
			mine = append(mine, d)
		} else {
			rest = append(rest, d)
		}
	}
	st.defers = rest
	for i := len(mine) - 1; i >= 0; i-- {
		if c := mine[i].cond; c != nil {
			// registered on some paths only: run it under its condition
			n := len(st.pc)
			t := st.clone()
			t.pc = append(t.pc, c)
			x.evalCall(t, mine[i].call)
			e := st.clone()
			e.pc = append(e.pc, Not(c))
			var parts []*State
			if !t.dead() {
				parts = append(parts, t)
			}
			parts = append(parts, e)
			m := x.merge(n, parts)
			*st = *m
			continue
		}
		x.evalCall(st, mine[i].call)
		if st.dead() {
			return
		}
	}
	if fr.isTop {
		for i, rv := range fr.fi.Results {
			if i < len(vals) {
				if x.boxed[rv] {
					x.storeAt(st, rv.Type(), st.vars[rv], vals[i], at)
				} else {
					st.vars[rv] = vals[i]
				}
			}
		}
		// ghost lemma calls: their preconditions are obligations, their
		// postconditions (proved where the lemma itself is verified) are assumed
		for _, l := range fr.fi.Lemmas {
			if end := x.execBlock(st, l.Body.List); end == nil {
				return
			}
		}
		x.cover(st, "cover-return", "return", at)
		for _, e := range fr.fi.Ensures {
			g := x.evalSpec(st, e.Expr)
			x.oblige(st, "post", e.Label, g, at)
		}
		// ghost frame: a counter the contract does not talk about (ghostset or a
		// postcondition mentioning it) must be left as it was, because callers
		// assume exactly that
		if es := fr.entry; es != nil {
			declared := map[string]bool{}
			for _, n := range ghostsMentioned(fr.fi) {
				declared[n] = true
			}
			for _, g := range fr.fi.GhostSets {
				declared[g.Name] = true
			}
			for _, name := range sortedKeys(st.ghost) {
				if declared[name] {
					continue
				}
				x.oblige(st, "ghost", "counter "+name+" changed without a clause saying so", Eq(x.ghostGet(st, name), x.ghostGet(es, name)), at)
			}
		}
		x.topReturns++
		return
	}
	fr.rets = append(fr.rets, retOutcome{st: st, vals: vals})
}

func (x *Exec) varPlace(st *State, v *types.Var) place {
	if x.boxed[v] {
		return place{kind: plCell, typ: v.Type(), ref: st.vars[v]}
	}
	return place{kind: plVar, v: v, typ: v.Type()}
}

func (x *Exec) execReturn(st *State, s *ast.ReturnStmt) {
	fr := x.cur()
	sig := fr.sig
	var vals []*Term
	if len(s.Results) == 1 && sig.Results().Len() > 1 {
		vals = x.evalMulti(st, s.Results[0], sig.Results().Len())
		if tup, ok := x.typeOf(s.Results[0]).(*types.Tuple); ok {
			for i := range vals {
				vals[i] = x.convert(st, vals[i], tup.At(i).Type(), sig.Results().At(i).Type())
			}
		}
	} else {
		for i, r := range s.Results {
			vals = append(vals, x.evalAs(st, r, sig.Results().At(i).Type()))
		}
	}
	if st.dead() {
		return
	}
	x.doReturn(st, vals, s, false)
}

// ---------------------------------------------------------------- contract calls

func (x *Exec) contractCall(st *State, fi *FuncInfo, args []*Term, call *ast.CallExpr) []*Term {
	sig := fi.sig()
	if x.used == nil {
		x.used = map[string]bool{}
	}
	x.used[fi.Name()] = true
	if x.top != nil && x.top.Contract.mentionsAtCall() && x.spec == 0 {
		snap := st.clone()
		snap.lastCall = nil
		st.lastCall = snap
	}
	before := map[*types.Var]bool{}
	for k := range st.vars {
		before[k] = true
	}
	fr := x.pushFrame(fi)
	savedBoxed := map[*types.Var]bool{}
	// parameters of a contract call are plain values, never boxed
	params := []*types.Var{}
	if sig.Recv() != nil {
		params = append(params, sig.Recv())
	}
	for j := 0; j < sig.Params().Len(); j++ {
		params = append(params, sig.Params().At(j))
	}
	for _, p := range params {
		if x.boxed[p] {
			savedBoxed[p] = true
			delete(x.boxed, p)
		}
	}
	// a recursive call binds the very variables of the running activation: keep their values
	savedVals := map[*types.Var]*Term{}
	for _, p := range params {
		if v, ok := st.vars[p]; ok {
			savedVals[p] = v
		}
	}
	for _, rv := range fi.Results {
		if v, ok := st.vars[rv]; ok {
			savedVals[rv] = v
		}
	}
	for i, p := range params {
		if i < len(args) {
			st.vars[p] = args[i]
		}
	}
	fr.allocIn = st.alloc
	fr.entry = st.clone()
	if !fi.hasContract() {
		x.abstracted("call of " + fi.Name() + " without contract (effects forgotten, result unknown)")
	}
	if sig.Recv() != nil {
		if _, isPtr := sig.Recv().Type().(*types.Pointer); isPtr && len(args) > 0 {
			x.popFrameNameOnly(func() { x.oblige(st, "nil", fi.Key+"@receiver", Neq(args[0], IntLit(0)), call) })
		}
	}
	assumePre := false
	if x.top.Contract != nil {
		for _, k := range x.top.Contract.AssumePre {
			if k == fi.Key || k == fi.Decl.Name.Name {
				assumePre = true
			}
		}
	}
	for _, r := range fi.Requires {
		g := x.evalSpec(st, r.Expr)
		if assumePre {
			st.assume(g)
			x.assumed = append(x.assumed, fmt.Sprintf("%s assumes the precondition %s of its callee %s at %s", x.top.Name(), r.Label, fi.Name(), x.p.relPos(call)))
			continue
		}
		x.popFrameNameOnly(func() { x.oblige(st, "pre", fi.Key+"@"+r.Label, g, call) })
	}
	// termination of recursion
	if fi == x.top && len(x.top.Decreases) > 0 {
		d := x.evalDecreases(st, fi.Decreases)
		x.popFrameNameOnly(func() { x.oblige(st, "dec", "call "+fi.Key, lexLess(d, x.ghostDec), call) })
	}
	// effects
	eff := x.p.effects(fi)
	if fi.HasMod {
		locs, elems := x.evalModifies(st, fi)
		wholeHeaps := map[string]bool{}
		var cellLocs []modLoc
		for _, l := range locs {
			if l.ref == nil {
				wholeHeaps[l.heap] = true
			} else {
				cellLocs = append(cellLocs, l)
			}
		}
		locs = cellLocs
		x.popFrameNameOnly(func() {
			for _, h := range sortedKeys(wholeHeaps) {
				if x.hasMod && !x.modHeaps[h] {
					x.oblige(st, "frame", "callee may write any cell of "+h, tFalse, call)
				}
			}
			for _, l := range locs {
				x.frameCheck(st, l.heap, l.ref, call)
			}
			if x.hasMod {
				for _, e := range elems {
					// every element cell must be writable by the caller: checked for the range ends
					for _, h := range e.heaps {
						x.frameCheckRange(st, h, e.sl, call)
					}
				}
			}
		})
		allocPre := st.alloc
		if eff.Allocates() || eff.Top {
			na := x.fresh("alloc", SInt)
			st.assume(Ge(na, st.alloc))
			st.alloc = na
		}
		touched := map[string]Sort{}
		for k, v := range eff.Writes {
			touched[k] = v
		}
		for _, name := range sortedKeys(touched) {
			elem := touched[name]
			if wholeHeaps[name] {
				x.havocHeap(st, name, elem)
				continue
			}
			var mine []*Term
			for _, l := range locs {
				if l.heap == name {
					mine = append(mine, l.ref)
				}
			}
			var ranges []*Term
			for _, e := range elems {
				for _, h := range e.heaps {
					if h == name {
						ranges = append(ranges, e.sl)
					}
				}
			}
			if len(ranges) == 0 {
				// only the declared cells change
				h := x.heap(st, name, elem)
				for _, r := range mine {
					nv := x.fresh("mod", elem)
					h = Store(h, r, nv)
				}
				x.setHeap(st, name, h)
				continue
			}
			x.linkFresh(st, name, elem, func(r *Term) *Term {
				cs := []*Term{Lt(r, allocPre)}
				for _, m := range mine {
					cs = append(cs, Neq(r, m))
				}
				for _, sl := range ranges {
					cs = append(cs, Or(Lt(r, slBase(sl)), Ge(r, Add(slBase(sl), slCap(sl)))))
				}
				return And(cs...)
			})
		}
	} else {
		x.popFrameNameOnly(func() { x.callFrameCheck(st, eff, call) })
		x.applyEffects(st, eff, nil, nil)
	}
	// results
	results := x.unknownResults(st, sig, fi.Key)
	if fi.Flag("functional") && len(results) == 1 && !eff.Top {
		// the result is the function's value on these arguments: the same term a
		// specification gets when it mentions the function
		var fargs []*Term
		for _, h := range sortedKeys(eff.Reads) {
			fargs = append(fargs, x.heap(fr.entry, h, eff.Reads[h]))
		}
		fargs = append(fargs, args...)
		app := x.app("sf!"+sanitize(fi.Name()), x.p.Reg.sortOf(sig.Results().At(0).Type()), fargs...)
		st.assume(Eq(results[0], app))
	}
	if len(fi.Results) == len(results) {
		for i, rv := range fi.Results {
			st.vars[rv] = results[i]
		}
	}
	// ghost counters the callee's postconditions talk about may have changed
	// (by calls it makes): they are unknown before those postconditions are
	// assumed; counters it sets explicitly are handled by its ghostset clauses
	for _, name := range ghostsMentioned(fi) {
		set := false
		for _, g := range fi.GhostSets {
			if g.Name == name {
				set = true
			}
		}
		if !set {
			x.ghostSet(st, name, x.fresh("ghost."+name, SInt))
		}
	}
	for _, e := range fi.Ensures {
		st.assume(x.evalSpec(st, e.Expr))
	}
	for _, e := range fi.AssumedEns {
		st.assume(x.evalSpec(st, e.Expr))
		msg := fmt.Sprintf("assumed postcondition %s of %s (used at call sites, not proved)", e.Label, fi.Name())
		seenA := false
		for _, a := range x.assumed {
			if a == msg {
				seenA = true
			}
		}
		if !seenA {
			x.assumed = append(x.assumed, msg)
		}
	}
	for _, g := range fi.GhostSets {
		x.ghostSet(st, g.Name, x.evalSpec(st, g.Expr))
	}
	x.popFrame()
	for p := range savedBoxed {
		x.boxed[p] = true
	}
	for p, v := range savedVals {
		st.vars[p] = v
	}
	for k := range st.vars {
		if !before[k] {
			delete(st.vars, k)
		}
	}
	return results
}

// ghostsMentioned: the ghost counters named in a function's postconditions.
func ghostsMentioned(fi *FuncInfo) []string {
	seen := map[string]bool{}
	var out []string
	scan := func(e ast.Expr) {
		if e == nil {
			return
		}
		ast.Inspect(e, func(n ast.Node) bool {
			if c, ok := n.(*ast.CallExpr); ok && markerName(c) == "__ghost" && len(c.Args) == 1 {
				name := strLit(c.Args[0], fi.Pkg.TypesInfo)
				if name != "" && !seen[name] {
					seen[name] = true
					out = append(out, name)
				}
			}
			return true
		})
	}
	for _, e := range fi.Ensures {
		scan(e.Expr)
	}
	for _, e := range fi.AssumedEns {
		scan(e.Expr)
	}
	sort.Strings(out)
	return out
}

// run f with the callee frame temporarily removed so that obligation names
// are attributed to the caller
func (x *Exec) popFrameNameOnly(f func()) {
	fr := x.frames[len(x.frames)-1]
	x.frames = x.frames[:len(x.frames)-1]
	f()
	x.frames = append(x.frames, fr)
}

func (x *Exec) frameCheckRange(st *State, heap string, sl *Term, at ast.Node) {
	// all cells of sl must be writable: fresh, or inside a declared element range
	alts := []*Term{Ge(slBase(sl), x.alloc0), Eq(slLen(sl), IntLit(0))}
	for _, m := range x.modEl {
		for _, h := range m.heaps {
			if h == heap {
				alts = append(alts, And(Le(slBase(m.sl), slBase(sl)), Le(Add(slBase(sl), slLen(sl)), Add(slBase(m.sl), slCap(m.sl)))))
			}
		}
	}
	x.oblige(st, "frame", "write elems "+heap, Or(alts...), at)
}

// evalModifies evaluates the modifies clause of fi in the current state.
func (x *Exec) evalModifies(st *State, fi *FuncInfo) ([]modLoc, []modElems) {
	return x.evalLocs(st, fi.Modifies, false)
}

// havocAllHeapsDyn: a call through a function value forgets every heap,
// except the places the unit's contract assumes such calls leave unchanged.
func (x *Exec) havocAllHeapsDyn(st *State) {
	type saved struct {
		l modLoc
		v *Term
	}
	var keep []saved
	for _, l := range x.dynLocs {
		if l.ref != nil && l.elem != "" {
			keep = append(keep, saved{l, x.hread(st, l.heap, l.elem, l.ref)})
		}
	}
	x.havocAllHeaps(st)
	for _, k := range keep {
		st.assume(Eq(x.hread(st, k.l.heap, k.l.elem, k.l.ref), k.v))
	}
}

func (x *Exec) evalLocs(st *State, exprs []ast.Expr, lenient bool) ([]modLoc, []modElems) {
	var locs []modLoc
	var elems []modElems
	x.spec++
	defer func() { x.spec-- }()
	for _, m := range exprs {
		m = ast.Unparen(m)
		if call, ok := m.(*ast.CallExpr); ok && markerName(call) == "__heapof" {
			// whole heaps of a type
			pt := x.typeOf(call.Args[0]).Underlying().(*types.Pointer)
			for _, h := range heapsOfType(pt.Elem()) {
				locs = append(locs, modLoc{heap: h, ref: nil})
			}
			continue
		}
		if call, ok := m.(*ast.CallExpr); ok && markerName(call) == "__mapcontent" {
			// the bindings of one map (its key set and values)
			mt, okm := x.typeOf(call.Args[0]).Underlying().(*types.Map)
			if !okm {
				x.unsupported(m, "mapcontent needs a map")
			}
			mref := x.eval(st, call.Args[0])
			dn, vn, _, _ := x.mapHeaps(mt)
			locs = append(locs, modLoc{heap: dn, ref: mref}, modLoc{heap: vn, ref: mref})
			continue
		}
		if call, ok := m.(*ast.CallExpr); ok && markerName(call) == "__elems" {
			sl := x.eval(st, call.Args[0])
			t := x.typeOf(call.Args[0]).Underlying().(*types.Slice)
			elems = append(elems, modElems{heaps: heapsOfType(t.Elem()), sl: sl})
			continue
		}
		ue, ok := m.(*ast.UnaryExpr)
		if !ok || ue.Op != token.AND {
			x.unsupported(m, "modifies entry")
		}
		pl := x.place(st, ue.X)
		switch pl.kind {
		case plCell:
			if stt, isStruct := pl.typ.Underlying().(*types.Struct); isStruct {
				if len(pl.path) > 0 {
					locs = append(locs, modLoc{fieldHeap(pl.typ, stt.Field(pl.path[0]).Name()), pl.ref, x.p.Reg.sortOf(stt.Field(pl.path[0]).Type())})
				} else {
					for _, h := range heapsOfType(pl.typ) {
						locs = append(locs, modLoc{heap: h, ref: pl.ref})
					}
				}
			} else {
				locs = append(locs, modLoc{heapOfType(pl.typ), pl.ref, x.p.Reg.sortOf(pl.typ)})
			}
		case plGlobal:
			locs = append(locs, modLoc{heap: pl.gheap, ref: IntLit(0)})
		case plMap:
			dn, vn, _, _ := x.mapHeaps(pl.mapT)
			locs = append(locs, modLoc{heap: dn, ref: pl.mref}, modLoc{heap: vn, ref: pl.mref})
		default:
			if lenient {
				continue // e.g. a field of a value receiver: a local copy, untouched by any call
			}
			x.unsupported(m, "modifies entry is not a heap location")
		}
	}
	return locs, elems
}

// ---------------------------------------------------------------- pure (spec) calls

func (x *Exec) pureCall(st *State, fi *FuncInfo, args []*Term, call *ast.CallExpr) []*Term {
	sig := fi.sig()
	if len(fi.LoopList) > 0 && !fi.Flag("opaque") && !fi.Flag("functional") {
		x.unsupported(call, "specification calls %s which has loops", fi.Name())
	}
	var recv *Term
	rest := args
	if sig.Recv() != nil {
		recv = args[0]
		rest = args[1:]
	}
	if !x.p.isRecursive(fi) && !fi.Flag("opaque") && !fi.Flag("functional") {
		return x.inlineCall(st, fi, recv, rest, call)
	}
	eff := x.p.effects(fi)
	if eff.Top {
		x.unsupported(call, "recursive specification function %s has unknown effects", fi.Name())
	}
	var fargs []*Term
	for _, h := range sortedKeys(eff.Reads) {
		fargs = append(fargs, x.heap(st, h, eff.Reads[h]))
	}
	fargs = append(fargs, args...)
	if sig.Results().Len() != 1 {
		x.unsupported(call, "recursive specification function with %d results", sig.Results().Len())
	}
	name := "sf!" + sanitize(fi.Name())
	app := x.app(name, x.p.Reg.sortOf(sig.Results().At(0).Type()), fargs...)
	if fi.Flag("opaque") || fi.Flag("functional") {
		return []*Term{app}
	}
	limit := 1
	if v, ok := fi.Flags["unroll"]; ok {
		fmt.Sscanf(v, "%d", &limit)
	}
	key := app
	if !app.Bound && !x.framed[key] {
		x.framed[key] = true
		x.specFrameAxioms(fi, name, app, sortedKeys(eff.Reads), fargs, args)
	}
	if x.specRec[fi.Obj] < limit && !x.unfolded[key] && !app.Bound {
		x.unfolded[key] = true
		x.specRec[fi.Obj]++
		// the unfolding is recorded as an axiom (it is used by every obligation of
		// the unit), so it must not be simplified with the facts of the path on
		// which the application happens to be met first: the body is evaluated
		// under an empty path condition
		tmp := st.clone()
		tmp.pc = nil
		body := x.inlineCall(tmp, fi, recv, rest, call)
		x.specRec[fi.Obj]--
		x.axiom(Eq(app, body[0]))
	}
	return []*Term{app}
}

// specFrameAxioms: a recursive specification function whose only heap
// footprint is the elements of its slice arguments has the same value in two
// heap versions that agree on those elements. For every heap argument that is
// a store or a linked fresh version, the application is equated with the one
// over the predecessor heap, under the condition that the footprint is kept.
func (x *Exec) specFrameAxioms(fi *FuncInfo, name string, app *Term, heapNames []string, fargs []*Term, args []*Term) {
	sig := fi.sig()
	var ptypes []types.Type
	if sig.Recv() != nil {
		ptypes = append(ptypes, sig.Recv().Type())
	}
	for i := 0; i < sig.Params().Len(); i++ {
		ptypes = append(ptypes, sig.Params().At(i).Type())
	}
	nh := len(heapNames)
	for hi, hname := range heapNames {
		// footprint of this heap: the element ranges of slice arguments stored in it
		var ranges []*Term
		covered := false
		for ai, pt := range ptypes {
			if sl, ok := pt.Underlying().(*types.Slice); ok && ai < len(args) {
				for _, h := range heapsOfType(sl.Elem()) {
					if h == hname {
						ranges = append(ranges, args[ai])
						covered = true
					}
				}
			}
		}
		if !covered {
			continue
		}
		var chain func(cur *Term, depth int)
		chain = func(cur *Term, depth int) {
			if depth > 6 {
				return
			}
			ht := cur.Args[hi]
			var pred, cond *Term
			switch {
			case ht.Op == "ite" && len(ht.Args) == 3:
				na := append([]*Term(nil), cur.Args...)
				nb := append([]*Term(nil), cur.Args...)
				na[hi], nb[hi] = ht.Args[1], ht.Args[2]
				a, b := App(name, app.Sort, na...), App(name, app.Sort, nb...)
				x.axiom(Eq(cur, Ite(ht.Args[0], a, b)))
				chain(a, depth+1)
				chain(b, depth+1)
				return
			case ht.Op == "store" && len(ht.Args) == 3:
				pred = ht.Args[0]
				var cs []*Term
				for _, sl := range ranges {
					cs = append(cs, Or(Lt(ht.Args[1], slBase(sl)), Ge(ht.Args[1], Add(slBase(sl), slLen(sl)))))
				}
				cond = And(cs...)
			case ht.IsLeaf() && x.links[ht.Op] != nil:
				l := x.links[ht.Op]
				pred = l.pred
				var cs []*Term
				for _, sl := range ranges {
					x.nfresh++
					r := BoundVar(fmt.Sprintf("r!q%d", x.nfresh), SInt)
					cs = append(cs, Forall([]*Term{r}, Implies(And(Le(slBase(sl), r), Lt(r, Add(slBase(sl), slLen(sl)))), l.keep(r))))
				}
				cond = And(cs...)
			}
			if pred == nil {
				return
			}
			nargs := append([]*Term(nil), cur.Args...)
			nargs[hi] = pred
			next := App(name, app.Sort, nargs...)
			x.axiom(Implies(cond, Eq(cur, next)))
			chain(next, depth+1)
		}
		chain(app, 0)
	}
	_ = nh
}

// ---------------------------------------------------------------- markers

func (x *Exec) entryState() *State {
	for i := len(x.frames) - 1; i >= 0; i-- {
		if x.frames[i].entry != nil {
			return x.frames[i].entry
		}
	}
	return nil
}

func (x *Exec) evalMarker(st *State, call *ast.CallExpr, name string) *Term {
	switch name {
	case "__old":
		es := x.entryState()
		if es == nil {
			x.unsupported(call, "old() without entry state")
		}
		tmp := es.clone()
		x.spec++
		defer func() { x.spec-- }()
		return x.eval(tmp, call.Args[0])
	case "__assert":
		if x.spec == 0 {
			x.cover(st, "cover-assert", strLit(call.Args[0], x.info()), call)
			c := x.evalSpec(st.clone(), closureExpr(call.Args[1]))
			x.oblige(st, "assert", strLit(call.Args[0], x.info()), c, call)
			st.assume(c)
		}
		return tTrue
	case "__ghostat":
		if x.spec == 0 {
			x.ghostSet(st, strLit(call.Args[0], x.info()), x.evalSpec(st.clone(), closureExpr(call.Args[1])))
		}
		return tTrue
	case "__assumeat":
		if x.spec == 0 {
			c := x.evalSpec(st.clone(), closureExpr(call.Args[1]))
			st.assume(c)
			x.assumed = append(x.assumed, fmt.Sprintf("%s assumes at a program point (%s): %s", x.top.Name(), strLit(call.Args[0], x.info()), x.nodeText(closureExpr(call.Args[1]))))
		}
		return tTrue
	case "__imp":
		return Implies(x.eval(st, call.Args[0]), x.eval(st, call.Args[1]))
	case "__iff":
		return Eq(x.eval(st, call.Args[0]), x.eval(st, call.Args[1]))
	case "__entry":
		if len(x.loopEntry) == 0 {
			x.unsupported(call, "entry() outside a loop invariant")
		}
		tmp := x.loopEntry[len(x.loopEntry)-1].clone()
		x.spec++
		defer func() { x.spec-- }()
		return x.eval(tmp, call.Args[0])
	case "__iterstart":
		if len(x.iterStart) == 0 {
			x.unsupported(call, "iterstart() outside a progress clause of a for loop")
		}
		tmp := x.iterStart[len(x.iterStart)-1].clone()
		x.spec++
		defer func() { x.spec-- }()
		return x.eval(tmp, call.Args[0])
	case "__atcall":
		// the value of e in the state in which the most recent call by contract
		// on this path was made (its arguments already evaluated)
		if st.lastCall == nil {
			x.unsupported(call, "atcall() without a unique preceding call by contract on this path")
		}
		tmp := st.lastCall.clone()
		x.spec++
		defer func() { x.spec-- }()
		return x.eval(tmp, call.Args[0])
	case "__rangeindex":
		if len(x.rangeIdx) == 0 || x.rangeIdx[len(x.rangeIdx)-1] == nil {
			x.unsupported(call, "rangeindex() outside a range-loop invariant")
		}
		return x.rangeIdx[len(x.rangeIdx)-1]
	case "__ghost":
		return x.ghostGet(st, strLit(call.Args[0], x.info()))
	case "__lastsent":
		ch := x.eval(st, call.Args[0])
		t := x.typeOf(call)
		return x.hread(st, "ghost$sent$"+sanitize(string(x.p.Reg.sortOf(t))), x.p.Reg.sortOf(t), ch)
	case "__sentcount":
		ch := x.eval(st, call.Args[0])
		return x.hread(st, "ghost$sentn", SInt, ch)
	case "__disjoint":
		// the backing arrays (full capacity) of two slices do not overlap
		a := x.eval(st, call.Args[0])
		b := x.eval(st, call.Args[1])
		if a.Sort != SSlice || b.Sort != SSlice {
			x.unsupported(call, "disjoint() takes two slices")
		}
		return Or(Le(Add(slBase(a), slCap(a)), slBase(b)), Le(Add(slBase(b), slCap(b)), slBase(a)), Eq(slCap(a), IntLit(0)), Eq(slCap(b), IntLit(0)))
	case "__samefn":
		a := x.eval(st, call.Args[0])
		b := x.eval(st, call.Args[1])
		if a.Sort != b.Sort {
			x.unsupported(call, "samefn on different sorts")
		}
		return Eq(a, b)
	case "__forall", "__exists":
		lo := x.eval(st, call.Args[0])
		hi := x.eval(st, call.Args[1])
		fl, ok := call.Args[2].(*ast.FuncLit)
		if !ok {
			x.unsupported(call, "quantifier body must be a function literal")
		}
		pv := x.info().Defs[fl.Type.Params.List[0].Names[0]].(*types.Var)
		x.nfresh++
		bv := BoundVar(fmt.Sprintf("%s!q%d", pv.Name(), x.nfresh), SInt)
		tmp := st.clone()
		tmp.vars[pv] = bv
		x.boundVars[pv] = bv
		body := x.eval(tmp, closureExpr(fl))
		delete(x.boundVars, pv)
		rng := And(Le(lo, bv), Lt(bv, hi))
		if name == "__forall" {
			return Forall([]*Term{bv}, Implies(rng, body))
		}
		return Exists([]*Term{bv}, And(rng, body))
	case "__forallkeys":
		m := x.eval(st, call.Args[0])
		mt, okm := x.typeOf(call.Args[0]).Underlying().(*types.Map)
		fl, ok := call.Args[1].(*ast.FuncLit)
		if !ok || !okm {
			x.unsupported(call, "forall over keys needs a map and a function literal")
		}
		dn, _, ks, _ := x.mapHeaps(mt)
		dom := x.hread(st, dn, mapSort(ks, SBool), m)
		pv := x.info().Defs[fl.Type.Params.List[0].Names[0]].(*types.Var)
		x.nfresh++
		bv := BoundVar(fmt.Sprintf("%s!q%d", pv.Name(), x.nfresh), ks)
		tmp := st.clone()
		tmp.vars[pv] = bv
		x.boundVars[pv] = bv
		body := x.eval(tmp, closureExpr(fl))
		delete(x.boundVars, pv)
		return ForallPat([]*Term{bv}, Implies(And(Neq(m, IntLit(0)), mk("select", SBool, dom, bv)), body), mk("select", SBool, dom, bv))
	case "__forallcells":
		fl, ok := call.Args[0].(*ast.FuncLit)
		if !ok {
			x.unsupported(call, "quantifier body must be a function literal")
		}
		pv := x.info().Defs[fl.Type.Params.List[0].Names[0]].(*types.Var)
		switch pv.Type().Underlying().(type) {
		case *types.Pointer, *types.Map:
			// references of both kinds are allocation indices
		default:
			x.unsupported(call, "forall ... in allocated needs a pointer- or map-typed variable")
		}
		es := x.entryState()
		if es == nil {
			x.unsupported(call, "forall ... in allocated without entry state")
		}
		x.nfresh++
		bv := BoundVar(fmt.Sprintf("%s!q%d", pv.Name(), x.nfresh), SInt)
		tmp := st.clone()
		tmp.vars[pv] = bv
		x.boundVars[pv] = bv
		body := x.eval(tmp, closureExpr(fl))
		delete(x.boundVars, pv)
		// instantiation patterns: the reads at the bound reference (each one an
		// alternative), so that a chain of frame facts is followed heap by heap
		var pats []*Term
		seenP := map[*Term]bool{}
		var walk func(t *Term)
		walk = func(t *Term) {
			if seenP[t] || !t.Bound {
				return
			}
			seenP[t] = true
			if t.Op == "select" && len(t.Args) == 2 && t.Args[1] == bv && !t.Args[0].Bound {
				pats = append(pats, t)
			}
			for _, a := range t.Args {
				walk(a)
			}
		}
		walk(body)
		q := ForallPat([]*Term{bv}, Implies(And(Lt(IntLit(0), bv), Lt(bv, es.alloc)), body), pats...)
		return q
	case "__rlocks", "__wlocked":
		var mu *Term
		if ue, ok := ast.Unparen(call.Args[0]).(*ast.UnaryExpr); ok && ue.Op == token.AND {
			if id, ok := x.lockIdentity(st, ue.X); ok {
				mu = id
			}
		}
		if mu == nil {
			mu = x.eval(st, call.Args[0])
		}
		if name == "__rlocks" {
			return x.hread(st, "ghost$rlocks", SInt, mu)
		}
		return x.hread(st, "ghost$wlocked", SBool, mu)
	case "__cancelled":
		// ghost: the context has been cancelled (its Done channel is closed)
		return x.app("ctx.cancelled", SBool, x.eval(st, call.Args[0]))
	case "__samemap":
		// reference identity of two maps (Go itself cannot compare maps)
		return Eq(x.eval(st, call.Args[0]), x.eval(st, call.Args[1]))
	case "__samecontent":
		// the two maps hold the same keys with the same values; an argument of the
		// form old(e) is read in the entry state
		side := func(a ast.Expr) (*Term, *Term) {
			stt := st
			e := a
			if c, ok := ast.Unparen(a).(*ast.CallExpr); ok && markerName(c) == "__old" {
				es := x.entryState()
				if es == nil {
					x.unsupported(call, "old() without entry state")
				}
				stt = es.clone()
				e = c.Args[0]
			} else if ok && markerName(c) == "__entry" {
				if len(x.loopEntry) == 0 {
					x.unsupported(call, "entry() outside a loop invariant")
				}
				stt = x.loopEntry[len(x.loopEntry)-1].clone()
				e = c.Args[0]
			}
			mt, ok := x.typeOf(e).Underlying().(*types.Map)
			if !ok {
				x.unsupported(call, "samecontent needs maps")
			}
			x.spec++
			m := x.eval(stt, e)
			x.spec--
			dn, vn, ks, vs := x.mapHeaps(mt)
			return x.hread(stt, dn, mapSort(ks, SBool), m), x.hread(stt, vn, mapSort(ks, vs), m)
		}
		d1, v1 := side(call.Args[0])
		d2, v2 := side(call.Args[1])
		return And(Eq(d1, d2), Eq(v1, v2))
	case "__haskey":
		m := x.eval(st, call.Args[0])
		mt, okm := x.typeOf(call.Args[0]).Underlying().(*types.Map)
		if !okm {
			x.unsupported(call, "haskey needs a map")
		}
		k := x.eval(st, call.Args[1])
		dn, _, ks, _ := x.mapHeaps(mt)
		dom := x.hread(st, dn, mapSort(ks, SBool), m)
		return And(Neq(m, IntLit(0)), selectKV(dom, k, SBool))
	case "__visited":
		if len(x.visStack) == 0 {
			x.unsupported(call, "visited() outside the invariant of a range-over-map loop")
		}
		return selectKV(x.visStack[len(x.visStack)-1], x.eval(st, call.Args[0]), SBool)
	case "__fresh":
		v := x.eval(st, call.Args[0])
		var base *Term
		for i := len(x.frames) - 1; i >= 0; i-- {
			if x.frames[i].allocIn != nil {
				base = x.frames[i].allocIn
				if x.frames[i].entry != nil || x.frames[i].isTop {
					break
				}
			}
		}
		if base == nil {
			base = x.alloc0
		}
		if v.Sort == SSlice {
			return Ge(slBase(v), base)
		}
		return Ge(v, base)
	}
	x.unsupported(call, "marker %s in expression", name)
	return nil
}

// ---------------------------------------------------------------- conversions

func (x *Exec) evalConversion(st *State, call *ast.CallExpr, to types.Type) *Term {
	arg := call.Args[0]
	from := x.typeOf(arg)
	tv := x.info().Types[arg]
	if tv.IsNil() {
		return x.zero(to)
	}
	switch {
	case isIfaceType(to):
		return x.evalAs(st, arg, to)
	case isIntType(to) && isIntType(from):
		v := x.eval(st, arg)
		flo, fhi, _ := x.rangeOf(defaultType(from))
		tlo, thi, _ := x.rangeOf(to)
		if flo != nil && tlo != nil && flo.Cmp(tlo) >= 0 && fhi.Cmp(thi) <= 0 {
			return v
		}
		if x.spec > 0 {
			// specifications use mathematical integers for 64-bit types; narrowing to
			// a smaller type is modelled exactly
			if b := basicOf(to); b != nil {
				switch b.Kind() {
				case types.Int, types.Int64, types.Uint, types.Uint64, types.Uintptr:
					return v
				}
			}
		}
		// conversions that can change the value are always modelled exactly
		return x.wrapMod(v, to)
	case isFloatType(to) && isIntType(from):
		v := x.eval(st, arg)
		return mk("(_ to_fp 11 53)", SFloat, Sym("RNE", "RoundingMode"), mk("to_real", "Real", v))
	case isFloatType(to) && isFloatType(from):
		return x.eval(st, arg)
	case isIntType(to) && isFloatType(from):
		v := x.eval(st, arg)
		r := x.app("go.f2i", SInt, v)
		x.axiom(x.typeInvPlain(to, r))
		return r
	case isStringType(to) && isStringType(from):
		return x.eval(st, arg)
	case isStringType(to) && isIntType(from):
		v := x.eval(st, arg)
		if n, ok := v.intVal(); ok && n.IsInt64() && n.Int64() >= 0 && n.Int64() < 0x10ffff {
			return x.strLit(string(rune(n.Int64())))
		}
		r := x.app("s.fromrune", SStr, v)
		x.axiom(And(Le(IntLit(1), x.app("s.len", SInt, r)), Le(x.app("s.len", SInt, r), IntLit(4))))
		return r
	case isStringType(to):
		if sl, ok := from.Underlying().(*types.Slice); ok {
			v := x.eval(st, arg)
			h := x.heap(st, heapOfType(sl.Elem()), x.p.Reg.sortOf(sl.Elem()))
			return x.app("s.ofslice", SStr, h, slBase(v), slLen(v))
		}
	}
	if sl, ok := to.Underlying().(*types.Slice); ok && isStringType(from) {
		s := x.eval(st, arg)
		var n *Term
		if isIntType(sl.Elem()) && basicOf(sl.Elem()).Kind() == types.Int32 {
			n = x.app("s.runecount", SInt, s)
			x.axiom(And(Le(IntLit(0), n), Le(n, x.strLen(s))))
		} else {
			n = x.strLen(s)
		}
		allocPre := st.alloc
		base := x.allocRefs(st, n)
		// contents are unknown (fresh cells), everything else is preserved
		x.linkFresh(st, heapOfType(sl.Elem()), x.p.Reg.sortOf(sl.Elem()), func(r *Term) *Term { return Lt(r, allocPre) })
		return mkSlice(base, n, n)
	}
	// identical underlying types (named <-> unnamed, struct conversions)
	if x.p.Reg.sortOf(to) == x.p.Reg.sortOf(from) {
		return x.eval(st, arg)
	}
	if types.Identical(to.Underlying(), from.Underlying()) {
		// struct types with different names: rebuild
		if _, ok := to.Underlying().(*types.Struct); ok {
			v := x.eval(st, arg)
			fs, ts := x.p.Reg.structOf(from), x.p.Reg.structOf(to)
			vals := make([]*Term, len(ts.Fields))
			for i := range ts.Fields {
				vals[i] = getField(fs, v, i)
			}
			return mkStruct(ts, vals)
		}
	}
	x.unsupported(call, "conversion from %s to %s", from, to)
	return nil
}

// ---------------------------------------------------------------- builtins

func (x *Exec) evalBuiltin(st *State, call *ast.CallExpr, name string) []*Term {
	one := func(t *Term) []*Term { return []*Term{t} }
	switch name {
	case "len":
		a := call.Args[0]
		t := x.typeOf(a)
		switch u := t.Underlying().(type) {
		case *types.Slice:
			return one(slLen(x.eval(st, a)))
		case *types.Basic:
			return one(x.strLen(x.eval(st, a)))
		case *types.Map:
			return one(x.mapLen(st, u, x.eval(st, a)))
		case *types.Chan:
			x.eval(st, a)
			r := x.fresh("chanlen", SInt)
			st.assume(Ge(r, IntLit(0)))
			return one(r)
		}
	case "cap":
		a := call.Args[0]
		if _, ok := x.typeOf(a).Underlying().(*types.Slice); ok {
			return one(slCap(x.eval(st, a)))
		}
	case "append":
		return one(x.evalAppend(st, call))
	case "make":
		t := x.typeOf(call.Args[0])
		switch u := t.Underlying().(type) {
		case *types.Slice:
			ln := x.eval(st, call.Args[1])
			cp := ln
			if len(call.Args) > 2 {
				cp = x.eval(st, call.Args[2])
			}
			x.oblige(st, "idx", "make: size out of range", And(Le(IntLit(0), ln), Le(ln, cp), Le(cp, maxSliceCap)), call)
			allocPre := st.alloc
			base := x.allocRefs(st, cp)
			x.zeroCells(st, u.Elem(), base, cp, allocPre)
			return one(mkSlice(base, ln, cp))
		case *types.Map:
			for _, a := range call.Args[1:] {
				x.eval(st, a)
			}
			return one(x.newMap(st, u, call))
		case *types.Chan:
			for _, a := range call.Args[1:] {
				x.eval(st, a)
			}
			return one(x.allocRefs(st, IntLit(1)))
		}
	case "new":
		t := x.typeOf(call.Args[0])
		ref := x.allocRefs(st, IntLit(1))
		x.storeAt(st, t, ref, x.zero(t), call)
		return one(ref)
	case "delete":
		mt := x.typeOf(call.Args[0]).Underlying().(*types.Map)
		m := x.eval(st, call.Args[0])
		k := x.evalAs(st, call.Args[1], mt.Key())
		x.mapDelete(st, mt, m, k, call)
		return nil
	case "panic":
		x.eval(st, call.Args[0])
		x.oblige(st, "unreachable", "", tFalse, call)
		st.kill()
		return nil
	case "recover":
		return one(x.fresh("recovered", SIface))
	case "print", "println":
		for _, a := range call.Args {
			x.eval(st, a)
		}
		return nil
	case "copy":
		dst := x.eval(st, call.Args[0])
		var n *Term
		if isStringType(x.typeOf(call.Args[1])) {
			n = x.strLen(x.eval(st, call.Args[1]))
		} else {
			n = slLen(x.eval(st, call.Args[1]))
		}
		cnt := Ite(Lt(slLen(dst), n), slLen(dst), n)
		t := x.typeOf(call.Args[0]).Underlying().(*types.Slice)
		for _, h := range heapsOfType(t.Elem()) {
			if x.hasMod {
				x.frameCheckRange(st, h, mkSlice(slBase(dst), cnt, cnt), call)
			}
		}
		eff := newEffects()
		c := &effCollector{p: x.p, info: x.info(), eff: eff}
		c.cellHeaps(t.Elem(), eff.Writes)
		for _, name := range sortedKeys(eff.Writes) {
			x.linkFresh(st, name, eff.Writes[name], func(r *Term) *Term {
				return Or(Lt(r, slBase(dst)), Ge(r, Add(slBase(dst), cnt)))
			})
		}
		return one(cnt)
	case "min", "max":
		t := x.typeOf(call)
		r := x.evalAs(st, call.Args[0], t)
		for _, a := range call.Args[1:] {
			v := x.evalAs(st, a, t)
			if !isIntType(t) {
				x.unsupported(call, "min/max on %s", t)
			}
			if name == "min" {
				r = Ite(Lt(v, r), v, r)
			} else {
				r = Ite(Gt(v, r), v, r)
			}
		}
		return one(r)
	case "close":
		x.eval(st, call.Args[0])
		x.abstracted("channel close")
		return nil
	}
	x.unsupported(call, "builtin %s", name)
	return nil
}

// zeroCells: cells [base, base+n) of the heaps of elem hold zero values
func (x *Exec) zeroCells(st *State, elem types.Type, base, n, allocPre *Term) {
	c := &effCollector{p: x.p, info: x.info(), eff: newEffects()}
	heaps := map[string]Sort{}
	c.cellHeaps(elem, heaps)
	zero := x.zero(elem)
	for _, name := range sortedKeys(heaps) {
		srt := heaps[name]
		var z *Term
		if stt, ok := elem.Underlying().(*types.Struct); ok {
			ss := x.p.Reg.structOf(elem)
			for i := 0; i < stt.NumFields(); i++ {
				if fieldHeap(elem, stt.Field(i).Name()) == name {
					z = getField(ss, zero, i)
				}
			}
		} else {
			z = zero
		}
		old := x.heap(st, name, srt)
		nh := x.fresh(name+"'", ArraySort(srt))
		zz := z
		x.links[nh.Op] = &heapLink{pred: old, keep: func(r *Term) *Term { return Lt(r, allocPre) }}
		x.zeroLinks[nh.Op] = func(r *Term) *Term {
			return Implies(And(Le(base, r), Lt(r, Add(base, n))), Eq(Select(nh, r), zz))
		}
		x.setHeap(st, name, nh)
	}
}

func (x *Exec) evalAppend(st *State, call *ast.CallExpr) *Term {
	st0 := x.typeOf(call.Args[0])
	slT, ok := st0.Underlying().(*types.Slice)
	if !ok {
		slT = x.typeOf(call).Underlying().(*types.Slice)
	}
	var s *Term
	if x.info().Types[call.Args[0]].IsNil() {
		s = nilSlice
	} else {
		s = x.eval(st, call.Args[0])
	}
	if call.Ellipsis.IsValid() {
		// append(s, t...)
		var tl, tb *Term
		if isStringType(x.typeOf(call.Args[1])) {
			tl = x.strLen(x.eval(st, call.Args[1]))
			tb = nil
		} else {
			t := x.eval(st, call.Args[1])
			tl, tb = slLen(t), slBase(t)
		}
		return x.appendN(st, slT, s, tl, tb, nil, call)
	}
	for _, a := range call.Args[1:] {
		v := x.evalAs(st, a, slT.Elem())
		s = x.appendN(st, slT, s, IntLit(1), nil, v, call)
	}
	return s
}

// appendN appends n elements (either the single value v, or the cells at
// srcBase.., or unknown contents) to s.
func (x *Exec) appendN(st *State, slT *types.Slice, s, n, srcBase, v *Term, at ast.Node) *Term {
	elem := slT.Elem()
	newLen := Add(slLen(s), n)
	fits := Le(newLen, slCap(s))
	allocPre := st.alloc
	newCap := x.fresh("cap", SInt)
	st.assume(And(Ge(newCap, newLen), Le(newCap, maxSliceCap)))
	resBase := Ite(fits, slBase(s), allocPre)
	resCap := Ite(fits, slCap(s), newCap)
	na := x.fresh("alloc", SInt)
	st.assume(Eq(na, Ite(fits, allocPre, Add(allocPre, newCap))))
	st.alloc = na
	if x.hasMod && x.spec == 0 {
		for _, h := range heapsOfType(elem) {
			// in-place append writes cells [base+len, base+len+n)
			x.oblige(st, "frame", "append writes "+h, Or(Not(fits), Eq(n, IntLit(0)), Ge(slBase(s), x.alloc0), x.inModElems(h, Add(slBase(s), slLen(s)), n)), at)
		}
	}
	c := &effCollector{p: x.p, info: x.info(), eff: newEffects()}
	heaps := map[string]Sort{}
	c.cellHeaps(elem, heaps)
	oldBase, oldLen := slBase(s), slLen(s)
	for _, name := range sortedKeys(heaps) {
		srt := heaps[name]
		old := x.heap(st, name, srt)
		nh := x.fresh(name+"'", ArraySort(srt))
		x.links[nh.Op] = &heapLink{pred: old, keep: func(r *Term) *Term {
			// untouched: everything allocated before, except the cells written in place
			return And(Lt(r, allocPre), Or(Not(fits), Lt(r, Add(oldBase, oldLen)), Ge(r, Add(oldBase, newLen))))
		}}
		nhh := nh
		oldh := old
		var val *Term
		if v != nil {
			if stt, ok := elem.Underlying().(*types.Struct); ok {
				ss := x.p.Reg.structOf(elem)
				for i := 0; i < stt.NumFields(); i++ {
					if fieldHeap(elem, stt.Field(i).Name()) == name {
						val = getField(ss, v, i)
					}
				}
			} else {
				val = v
			}
		}
		x.zeroLinks[nh.Op] = func(r *Term) *Term {
			off := Sub(r, resBase)
			cs := []*Term{
				// copied prefix after reallocation
				Implies(And(Not(fits), Le(resBase, r), Lt(r, Add(resBase, oldLen))), Eq(Select(nhh, r), Select(oldh, Add(oldBase, off)))),
			}
			if val != nil {
				cs = append(cs, Implies(Eq(r, Add(resBase, oldLen)), Eq(Select(nhh, r), val)))
			} else if srcBase != nil {
				cs = append(cs, Implies(And(Le(Add(resBase, oldLen), r), Lt(r, Add(resBase, newLen))),
					Eq(Select(nhh, r), Select(oldh, Add(srcBase, Sub(off, oldLen))))))
			}
			return And(cs...)
		}
		// quantified version for reads under quantifiers: stated per reference so
		// that the instantiation pattern is a plain array read
		zl := x.zeroLinks[nh.Op]
		x.zeroLinksQ[nh.Op] = func() []*Term {
			x.nfresh++
			r := BoundVar(fmt.Sprintf("r!q%d", x.nfresh), SInt)
			return []*Term{ForallPat([]*Term{r}, zl(r), Select(nhh, r))}
		}
		x.setHeap(st, name, nh)
	}
	return mkSlice(resBase, newLen, resCap)
}

func (x *Exec) inModElems(heap string, from, n *Term) *Term {
	var alts []*Term
	for _, m := range x.modEl {
		for _, h := range m.heaps {
			if h == heap {
				alts = append(alts, And(Le(slBase(m.sl), from), Le(Add(from, n), Add(slBase(m.sl), slCap(m.sl)))))
			}
		}
	}
	if n1, ok := n.intVal(); ok && n1.IsInt64() && n1.Int64() == 1 {
		for _, m := range x.modLocs {
			if m.heap == heap {
				alts = append(alts, Eq(from, m.ref))
			}
		}
	}
	return Or(alts...)
}
