package main

import (
	"bytes"
	"fmt"
	"go/ast"
	"go/printer"
	"go/types"
	"os"
	"path/filepath"
	"regexp"
	"strconv"
	"strings"
	"time"
)

// replay: a failed obligation is confirmed on the real code by running the
// runtime-assertion-checked build of the current tree on concrete inputs: the
// text extracted from the solver's model (when the unit declares where its
// source text lives), a small exhaustive corpus of short texts, and the
// repository's example programs. A confirmed replay names the input.

type replayPlan struct {
	obls   []*Obligation
	corpus []string
	origin []string // where each corpus entry came from
	stages string
}

func parseReplayText(out string) (string, bool) {
	i := strings.Index(out, "replaytext-begin")
	j := strings.Index(out, "replaytext-end")
	if i < 0 || j < 0 || j < i {
		return "", false
	}
	body := out[i+len("replaytext-begin") : j]
	// values are the last atom of each "(term value)" pair; parse all pairs
	vals := parsePairs(body)
	if len(vals) == 0 {
		return "", false
	}
	n := vals[0]
	if n < 0 || n > int64(replayTextMax) {
		return "", false
	}
	var rs []rune
	for k := int64(0); k < n && int(k)+1 < len(vals); k++ {
		r := vals[k+1]
		if r < 0 || r > 0x10ffff || (r >= 0xd800 && r <= 0xdfff) {
			r = '?'
		}
		rs = append(rs, rune(r))
	}
	return string(rs), true
}

// parsePairs extracts the integer value of each top-level "(term value)" pair
// of a get-value answer.
func parsePairs(s string) []int64 {
	var out []int64
	depth := 0
	start := -1
	for i := 0; i < len(s); i++ {
		switch s[i] {
		case '(':
			depth++
			if depth == 2 {
				start = i
			}
		case ')':
			if depth == 2 && start >= 0 {
				pair := s[start+1 : i]
				out = append(out, lastInt(pair))
				start = -1
			}
			depth--
		}
	}
	return out
}

// lastInt reads the value at the end of "term value" where value is N or (- N)
func lastInt(pair string) int64 {
	pair = strings.TrimSpace(pair)
	if strings.HasSuffix(pair, ")") {
		// either the term ends with ')' and value is a numeral after it, or value is (- N)
		k := strings.LastIndex(pair, "(- ")
		if k >= 0 && !strings.Contains(pair[k+3:len(pair)-1], " ") {
			n, err := strconv.ParseInt(strings.TrimSpace(pair[k+3:len(pair)-1]), 10, 64)
			if err == nil {
				return -n
			}
		}
	}
	k := strings.LastIndexAny(pair, " )")
	n, err := strconv.ParseInt(strings.TrimSpace(pair[k+1:]), 10, 64)
	if err != nil {
		return -1
	}
	return n
}

func smallCorpus() []string {
	alpha := []string{"a", "1", "_", " ", "\n", "\t", "\"", "'", "\\", "|", "&", "^", "~", ">", "=", "<", "*", "/", ".", "-", "+", "!", "%", "f", "x", ";", "(", ")", "{", "}", "[", "]", ",", ":", "?", "$", "@", "#", "§"}
	var out []string
	out = append(out, "")
	for _, a := range alpha {
		out = append(out, a)
		for _, b := range alpha {
			out = append(out, a+b)
		}
	}
	short := []string{"a", "1", "_", " ", "\n", "\"", "\\", "|", "&", "^", "~", ">", "=", "<", "*", "/", ".", "-", "f", "x"}
	for _, a := range short {
		for _, b := range short {
			for _, c := range short {
				out = append(out, a+b+c)
			}
		}
	}
	out = append(out, "10_000", "1_0_0", "12f", "1.5", "1._5", "1__2", "0x10", "\"\\x41\"", "\"\\u00e4\"", "\"\\U0001F600\"", "\"\\101\"", "'\\n'", "\"abc", "/* x", "/* x */ y", "/***/x", "/** d **/ x", "/* a **/ b", "/**/x", "1_", "1_000_", "2.5__", ">>=", ">>==", "<<=", "**=", "\"\\U0001F600\"", "'\\U00010000'", "\"\\x4", "\"ab\\u12", "// c\nx", "a|b", "a||b", "a&b", "a&&b", "a^b", "x~>y", "a\tb")
	return out
}

// seedPrograms are one-construct programs; faultCorpus derives from them the
// single-fault variants (an illegal character, a truncation) at every token
// boundary, the inputs on which error paths of the parser run.
var seedPrograms = []string{
	"import a from b;", "import {a, b} from c;", "import type t from m;", "import templ t from m;", "import a from b:c:d;", "import @a from b;",
	"fn main() { let a = 1 + 2 * 3; }", "fn f(a: int, b: str) -> int { a }", "pub fn g() {}", "event fn h() {}",
	"let x: [int] = [1, 2, 3,];", "type T = { a: int, 'b c': ?str };", "fn main() { if a { b } else if c { d } else { e }; }",
	"fn main() { match x { 1 | 2 => a, _ => b, }; }", "fn main() { try { a } catch e { b } }", "fn main() { for i in 0..10 { break; continue; } }",
	"fn main() { while true { loop { return 1; } } }", "fn main() { let o = new { a: 1, \"b\": 2 }; o.a = o[0] as int; }",
	"fn main() { a(1, b(2),); spawn f(x); x->y; x~>y; -a; !b; ?c; }", "$S = { @setting a: int };", "impl T with { a, b } for $S { fn f() {} }",
	"#[a, b(c)] fn f() {}", "fn main() { trigger f on minute(1); }", "fn main() { let f = fn(a: int) -> int { a ** 2 }; }",
	"fn main() { a += 1; a <<= 2; a |= b && c || d ^ e & f; }",
}

func faultCorpus() []string {
	var out []string
	for _, p := range seedPrograms {
		out = append(out, p)
		rs := []rune(p)
		for i := 0; i <= len(rs); i++ {
			if i > 0 && i < len(rs) && isWordRune(rs[i-1]) && isWordRune(rs[i]) {
				continue
			}
			out = append(out, string(rs[:i])+"§"+string(rs[i:]))
			out = append(out, string(rs[:i]))
		}
	}
	return out
}

func isWordRune(r rune) bool {
	return r == '_' || (r >= 'a' && r <= 'z') || (r >= 'A' && r <= 'Z') || (r >= '0' && r <= '9')
}

// runtimeCorpus: tiny accepted programs that apply every binary and prefix
// operator to boundary operand values (zero divisors, negative shift counts,
// extreme integers), the inputs on which VM and interpreter guards matter.
func runtimeCorpus() []string {
	ints := []string{"0", "1", "(0-1)", "7", "63", "64", "(0-9223372036854775807-1)", "9223372036854775807"}
	ops := []string{"+", "-", "*", "/", "%", "**", "<<", ">>", "|", "&", "^", "<", ">", "<=", ">=", "==", "!="}
	var out []string
	for _, op := range ops {
		for _, l := range []string{"7", "(0-9223372036854775807-1)", "0"} {
			for _, r := range ints {
				out = append(out, fmt.Sprintf("fn main() { let a = %s; let b = %s; println(a %s b); }", l, r, op))
			}
		}
	}
	floats := []string{"0.0", "1.5", "(0.0-2.5)"}
	for _, op := range []string{"+", "-", "*", "/", "**", "<", ">=", "=="} {
		for _, l := range floats {
			for _, r := range floats {
				out = append(out, fmt.Sprintf("fn main() { let a = %s; let b = %s; println(a %s b); }", l, r, op))
			}
		}
	}
	out = append(out,
		"fn main() { let a = true; let b = false; println(a | b, a & b, a ^ b, !a); }",
		"fn main() { let s = \"a\" + \"b\"; println(s); }",
		"fn main() { let x = [1, 2, 3]; println(x[0-1], x[3]); }",
		"fn main() { let o = ?1; println(o.unwrap()); let n: ?int = none; println(n.unwrap()); }",
		"fn main() { try { throw(\"x\"); } catch e { println(e.message); } }",
	)
	return out
}

// controlCorpus: nestings (depth <= 2) of the control constructs around each
// kind of exit, followed by further code, with an operand pending around the
// whole construct where the grammar allows it. Programs the analyzer rejects
// (break outside a loop ...) are skipped by the driver.
func controlCorpus() []string {
	exits := []string{"break;", "continue;", "return 7;", "throw(\"boom\");", "println(1 / zero);", "println(1 % zero);", "println([1, 2][idx]);"}
	wrap := func(kind string, body string, n int) string {
		switch kind {
		case "loop":
			return fmt.Sprintf("let c%d = 0; loop { c%d += 1; if c%d > 2 { break; } println(\"it\", c%d); %s println(\"after-body\"); }", n, n, n, n, body)
		case "while":
			return fmt.Sprintf("let w%d = 0; while w%d < 2 { w%d += 1; %s println(\"after-body\"); }", n, n, n, body)
		case "for":
			return fmt.Sprintf("for i%d in 0..2 { println(\"for\", i%d); %s println(\"after-body\"); }", n, n, body)
		case "block":
			return fmt.Sprintf("{ let shadow = %d; %s println(shadow); }", n, body)
		case "if":
			return fmt.Sprintf("if one == 1 { %s println(\"then-rest\"); } else { println(\"else\"); }", body)
		case "match":
			return fmt.Sprintf("match one { 1 => { %s println(\"arm-rest\"); }, _ => { println(\"other\"); } }", body)
		case "try":
			return fmt.Sprintf("try { %s println(\"try-rest\"); } catch e%d { println(\"caught\", e%d.message, e%d.line, e%d.column); }", body, n, n, n, n)
		case "catch":
			return fmt.Sprintf("try { throw(\"inner\"); } catch e%d { println(e%d.message); %s println(\"catch-rest\"); }", n, n, body)
		case "value":
			return fmt.Sprintf("println(100 - try { %s 1 + thrower() } catch e%d { 5 });", body, n)
		}
		return body
	}
	kinds := []string{"loop", "while", "for", "block", "if", "match", "try", "catch", "value"}
	var out []string
	prog := func(stmts string, inCall bool) string {
		pre := "fn thrower() -> int { throw(\"from-callee\"); 1 }\nfn leaves_try() -> int { try { return 1; } catch e { println(\"stale\"); } 0 }\n"
		if inCall {
			return pre + "fn callee() -> int { let one = 1; let zero = 0; let idx = 5; let local = 41; " + stmts + " println(\"callee-end\", local); 0 }\nfn main() { let keep = 3; println(10 + callee()); println(\"main-end\", keep); leaves_try(); println(keep); }"
		}
		return pre + "fn main() { let one = 1; let zero = 0; let idx = 5; let local = 41; println(\"start\"); " + strings.ReplaceAll(stmts, "return 7;", "return;") + " println(\"end\", local); leaves_try(); throw(\"late\"); }"
	}
	for _, ex := range exits {
		for _, k1 := range kinds {
			out = append(out, prog(wrap(k1, ex, 1), false), prog(wrap(k1, ex, 1), true))
			for _, k2 := range kinds {
				out = append(out, prog(wrap(k2, wrap(k1, ex, 1), 2), true))
			}
		}
	}
	out = append(out,
		"fn f() -> int { try { return 1; } catch e { println(\"wrong handler\"); } 0 }\nfn main() { f(); throw(\"boom\"); }",
		"fn f() -> int { try { return 1; } catch e { println(\"wrong handler\"); } 0 }\nfn main() { let r = try { f(); throw(\"boom\"); 1 } catch e { 2 }; println(r); }",
		"fn g() -> int { throw(\"x\"); 1 }\nfn main() { println(10 - try { 1 + g() } catch e { 2 }); }",
		"fn g() -> int { throw(\"x\"); 1 }\nfn h() -> int { 10 - try { 1 + g() } catch e { 2 } }\nfn main() { println(h()); }",
		"fn g(i: int) -> int { if i >= 0 { throw(\"x\"); } 1 }\nfn main() { let n = 0; for i in 0..600 { try { let x = 1 + g(i); n += x; } catch e { n += 1; } } println(n); }",
		"fn main() { try { throw(\n\n\"multi\"\n\n); } catch e { println(e.line, e.column, e.message, e.filename); } }",
		"fn d(n: int) -> int { if n == 0 { 0 } else { 1 + d(n - 1) } }\nfn main() { println(d(50)); println(d(200)); }",
		"fn d(n: int) -> int { let a = n; let b = n; let c = n; if n == 0 { 0 } else { a + b + c + d(n - 1) } }\nfn main() { println(d(90)); }",
		"fn main() { let f = fn() -> int { 1 }; let s = 0; for i in 0..300 { s += f(); } println(s); }",
	)
	return out
}

// valueCorpus: programs around equality, copying, indexing and casts of
// structured values.
func valueCorpus() []string {
	vals := []string{"1", "1.5", "true", "\"s\"", "[1, 2]", "[1, 2, 3]", "[]", "1..3", "1..=3", "?1", "?[1]", "none", "new { a: 1, b: 2 }", "new { a: 1, c: 3 }", "new { a: 1 }", "[?[1]]", "[1..=3]", "[new { a: [1] }]"}
	var out []string
	for _, a := range vals {
		for _, b := range vals {
			out = append(out, fmt.Sprintf("fn main() { let a = %s; let b = %s; println(a == b, b == a, a != b); }", a, b))
		}
		out = append(out, fmt.Sprintf("fn main() { let l = [%s]; for x in l { println(x); } println(l == l, l); }", a))
		out = append(out, fmt.Sprintf("fn main() { let a = %s; let l = [a, a]; for x in l { println(x == a); } }", a))
	}
	for _, idx := range []string{"0", "2", "3", "(0-1)", "(0-3)", "(0-4)", "(0-9223372036854775807-1)", "9223372036854775807"} {
		out = append(out, fmt.Sprintf("fn i() -> int { %s }\nfn main() { let l = [1, 2, 3]; println(l[i()]); }", idx))
		out = append(out, fmt.Sprintf("fn i() -> int { %s }\nfn main() { let e: [int] = []; println(e[i()]); }", idx))
		out = append(out, fmt.Sprintf("fn i() -> int { %s }\nfn main() { let s = \"abc\"; println(s[i()]); }", idx))
		out = append(out, fmt.Sprintf("fn i() -> int { %s }\nfn main() { println(256 >> i(), 1 << i(), (0-8) >> i()); }", idx))
	}
	jsons := []string{"null", "1", "1.5", "true", "\\\"s\\\"", "[1,2]", "[true,false]", "[1.5]", "{\\\"a\\\":1}", "{\\\"a\\\":1.5}", "{\\\"a\\\":1,\\\"b\\\":null}", "{\\\"a\\\":{\\\"b\\\":[1]}}", "[null]", "[[1],[2]]"}
	types := []string{"int", "float", "bool", "str", "[int]", "[float]", "[bool]", "?int", "?[int]", "{ a: int }", "{ a: ?int }", "{ a: int, b: ?int }", "{ a: float }", "[?int]", "{ a: { b: [int] } }", "{ ? }", "[{ a: int }]"}
	for _, j := range jsons {
		for _, t := range types {
			out = append(out, fmt.Sprintf("fn main() { let v = \"%s\".parse_json() as %s; println(v); }", j, t))
			if strings.HasPrefix(t, "[") || strings.HasPrefix(t, "{") {
				out = append(out, fmt.Sprintf("fn main() { let v = \"%s\".parse_json() as %s; println(v.to_json()); }", j, t))
			}
			out = append(out, fmt.Sprintf("fn main() { let v: %s = \"%s\".parse_json(); println(v); }", t, j))
		}
	}
	out = append(out,
		"fn main() { let l = [?[1]]; for o in l { o.unwrap().push(2); } println(l); }",
		"fn main() { let l = [[1]]; for o in l { o.push(2); } println(l); }",
		"fn main() { let o = new { a: [1] }; let l = [o]; for x in l { x.a.push(2); } println(l, o); }",
		"fn main() { let v = \"{\\\"a\\\":1}\".parse_json() as { a: int, b: ?int }; println(v.b); }",
		"fn main() { let v = \"null\".parse_json() as int; println(v + 1); }",
		// function literals: parameters, own locals, locals of the enclosing function, singleton parameters
		"fn main() { let f = fn(x: int) -> int { let c = x * 2; c + 1 }; println(f(1), f(2)); }",
		"fn main() { let a = 5; let b = 7; let f = fn(x: int) -> int { let c = x * 2; a + b + c }; println(f(1)); println(a, b); }",
		"fn main() { let a = 5; let f = fn() -> int { a = a + 1; a }; println(f()); println(a); }",
		"$S = { n: int };\nfn get(s: $S, k: int) -> int { s.n + k }\nfn main() { println(1 + get(2)); println([get(1), get(2)]); }",
		"fn main() { let e = 1; try { throw(\"x\"); } catch e { println(e.message); } println(e); }",
		// expressions that generate no value where one is consumed, values nobody consumes
		"fn f() {}\nfn main() { let v = { println(1); }; let w = v; let l = [f()]; let a = null; a = f(); let o = new { a: f() }; println(f() == null, l.len(), o); }",
		"fn main() { let n = null; let c = 0; for i in 0..700 { null; n; match i { 0 => { c += 1; }, _ => { c += 2; }, }; let v = match i { 0 => 1, _ => 2, }; c += v; } println(c); }",
		"fn f() {}\nfn g() { return f(); }\nfn h() { f() }\nfn main() { for i in 0..700 { g(); h(); f(); if i > 5 { f(); } } println(\"ok\"); }",
		"fn f(c: bool) -> int { let x = if c { return 1; } else { 2 }; x }\nfn g(c: bool) -> int { let x = if c { 2 } else { return 1; }; x }\nfn h(c: bool) { if c { return; } else { println(\"e\"); } }\nfn main() { println(f(false), f(true), g(false), g(true)); h(true); h(false); }",
		"fn f(c: bool) -> int { let x = try { if c { return 1; } 3 } catch e { 2 }; x }\nfn g(c: bool) -> int { let x = try { if c { throw(\"t\"); } 3 } catch e { return 4; }; x }\nfn main() { let n = 0; for i in 0..50 { let v = if i > 5 { continue; } else { 2 }; n += v; } println(f(false), f(true), g(false), g(true), n); }",
		"fn k() -> int { let x = { return 1; }; 2 }\nfn main() { let t = try { throw(\"a\"); 1 } catch e { 2 }; let u = try { 3 } catch e { 4 }; println(t, u, k()); }",
	)
	return out
}

func exampleCorpus(root string) []string {
	var out []string
	for _, pat := range []string{"examples/*.hms", "tests/*.hms", "tests/*/*.hms", "test/*.hms"} {
		files, _ := filepath.Glob(filepath.Join(root, pat))
		for _, f := range files {
			if b, err := os.ReadFile(f); err == nil && len(b) < 64*1024 {
				out = append(out, string(b))
			}
		}
	}
	return out
}

func stagesFor(o *Obligation) string {
	switch {
	case strings.HasPrefix(o.Func, "lexer.") || strings.HasPrefix(o.Func, "errors."):
		return "lex"
	case strings.HasPrefix(o.Func, "parser"):
		return "lex,parse"
	case strings.HasPrefix(o.Func, "analyzer") || strings.HasPrefix(o.Func, "diagnostic"):
		return "lex,parse,analyze"
	}
	return "lex,parse,analyze,run"
}

// racNames: the runtime names that confirm a static obligation
func racMatches(o *Obligation, line string) bool {
	name := o.Name
	if i := strings.Index(name, "~"); i >= 0 {
		name = name[:i]
	}
	switch o.Kind {
	case "post", "assert":
		return line == "RAC-FAIL "+name
	case "inv-init", "inv-keep":
		n := strings.Replace(strings.Replace(name, "#inv-init:", "#inv:", 1), "#inv-keep:", "#inv:", 1)
		return line == "RAC-FAIL "+n
	case "pre":
		// static: caller#pre:callee@label ; runtime: caller#pre:callee
		if i := strings.LastIndex(name, "@"); i >= 0 {
			return line == "RAC-PREFAIL "+name[:i]
		}
	case "nil", "idx", "cast", "div", "shift", "unreachable", "ext":
		return strings.HasPrefix(line, "RAC-PANIC "+o.Func+" ") || strings.HasPrefix(line, "RAC-PANIC "+o.Func+".func")
	case "dec":
		return strings.HasPrefix(line, "RAC-HANG")
	}
	return false
}

// scalarInputs reads the model values of the unit's inputs when all of them
// are scalars (integers, booleans); it returns Go argument expressions.
func scalarArgs(o *Obligation) ([]string, bool) {
	x := o.ex
	fi := x.top
	if fi == nil || fi.Decl == nil {
		return nil, false
	}
	i := strings.Index(o.Model, "inputs-begin")
	j := strings.Index(o.Model, "inputs-end")
	vals := map[string]string{}
	if i >= 0 && j > i {
		for _, m := range pairRe.FindAllStringSubmatch(o.Model[i:j], -1) {
			vals[m[1]] = strings.TrimSpace(m[2])
		}
	}
	var args []string
	for _, in := range x.inputs {
		if in.Term.Sort != SInt && in.Term.Sort != SBool {
			return nil, false
		}
		if strings.ContainsAny(in.Type, "*[") || strings.HasPrefix(in.Type, "map") || strings.HasPrefix(in.Type, "func") || strings.HasPrefix(in.Type, "chan") {
			return nil, false
		}
		v, ok := vals[in.Name]
		if !ok {
			// unconstrained input: any value will do
			if in.Term.Sort == SBool {
				v = "false"
			} else {
				v = "0"
			}
		}
		v = strings.ReplaceAll(strings.ReplaceAll(strings.ReplaceAll(v, "(- ", "-"), ")", ""), " ", "")
		t := in.Type
		if k := strings.LastIndex(t, "."); k >= 0 && strings.Contains(t, "/") {
			t = t[strings.LastIndex(t, "/")+1:]
		}
		if in.Term.Sort == SBool {
			args = append(args, v)
		} else {
			args = append(args, fmt.Sprintf("%s(%s)", t, v))
		}
	}
	return args, true
}

var pairRe = regexp.MustCompile(`\((in\.[\w.!]+)\s+(\(- \d+\)|-?\d+|true|false)\)`)

// unitReplaySource builds an in-package test that calls the unit with the
// model's argument values.
func unitReplaySource(p *Prog, o *Obligation, n int) (unitTest, bool) {
	args, ok := scalarArgs(o)
	if !ok {
		return unitTest{}, false
	}
	fi := o.ex.top
	pkgDir, _ := filepath.Rel(p.Root, filepath.Dir(p.Fset.Position(fi.Decl.Pos()).Filename))
	pkgName := fi.Pkg.Types.Name()
	// types of the own package must not be qualified
	for i := range args {
		args[i] = strings.ReplaceAll(args[i], pkgName+".", "")
	}
	call := ""
	sig := fi.sig()
	if sig.Recv() != nil {
		call = fmt.Sprintf("(%s).%s(%s)", args[0], fi.Decl.Name.Name, strings.Join(args[1:], ", "))
	} else {
		call = fmt.Sprintf("%s(%s)", fi.Decl.Name.Name, strings.Join(args, ", "))
	}
	src := fmt.Sprintf(`package %s

import (
	"fmt"
	"go/ast"
	"go/types"
	"os"
	"testing"
)

func TestHvcUnit%d(t *testing.T) {
	fmt.Fprintf(os.Stderr, "RAC-UNIT %d\n")
	defer func() {
		if r := recover(); r != nil {
			fmt.Fprintf(os.Stderr, "RAC-PANIC %s stage=unit msg=%%q\n", fmt.Sprint(r))
		}
		fmt.Fprintf(os.Stderr, "RAC-UNIT-END %d\n")
	}()
	%s
}
`, pkgName, n, n, o.Func, n, call)
	return unitTest{pkgDir: pkgDir, source: src}, true
}

// replayAll tries to confirm the failed obligations on the real code.
func replayAll(p *Prog, failed []*Obligation) map[*Obligation]*ReplayResult {
	res := map[*Obligation]*ReplayResult{}
	if len(failed) == 0 || os.Getenv("HVC_NOREPLAY") != "" {
		return res
	}
	var corpus, origin []string
	stages := "lex"
	for _, o := range failed {
		if s := stagesFor(o); len(s) > len(stages) {
			stages = s
		}
		if txt, ok := parseReplayText(o.Model); ok {
			corpus = append(corpus, txt)
			origin = append(origin, "solver model of "+o.Name)
		}
	}
	for _, t := range smallCorpus() {
		corpus = append(corpus, t)
		origin = append(origin, "short-text corpus")
	}
	if stages != "lex" {
		for _, t := range faultCorpus() {
			corpus = append(corpus, t)
			origin = append(origin, "single-fault variants of one-construct seed programs")
		}
	}
	if strings.Contains(stages, "run") {
		for _, t := range runtimeCorpus() {
			corpus = append(corpus, t)
			origin = append(origin, "operator x boundary-operand programs")
		}
		for _, t := range controlCorpus() {
			corpus = append(corpus, t)
			origin = append(origin, "control-construct nestings x exits")
		}
		for _, t := range valueCorpus() {
			corpus = append(corpus, t)
			origin = append(origin, "structured-value programs (equality, copying, indexing, casts)")
		}
	}
	for _, t := range exampleCorpus(p.Root) {
		corpus = append(corpus, t)
		origin = append(origin, "repository example program")
	}
	computeRacOldTypes(p)
	var units []unitTest
	unitOf := map[*Obligation]int{}
	unitCall := map[*Obligation]string{}
	for _, o := range failed {
		if u, ok := unitReplaySource(p, o, len(units)); ok {
			unitOf[o] = len(units)
			unitCall[o] = u.source
			units = append(units, u)
		}
	}
	run, err := runRACWithUnits(p.Root, corpus, stages, 240*time.Second, units)
	if err != nil {
		for _, o := range failed {
			res[o] = &ReplayResult{Note: "replay harness failed: " + err.Error()}
		}
		return res
	}
	for _, o := range failed {
		r := &ReplayResult{Note: fmt.Sprintf("runtime-checked build ran %d inputs (stages %s); no input violated this clause", len(corpus), stages)}
		best := -1
		for idx := 0; idx < len(corpus); idx++ {
			for _, ln := range run.ByInput[idx] {
				if racMatches(o, ln) {
					if best < 0 || len(corpus[idx]) < len(corpus[best]) {
						best = idx
					}
				}
			}
		}
		if n, ok := unitOf[o]; ok && best < 0 {
			// lines between RAC-UNIT n and RAC-UNIT-END n
			out := run.UnitOutput
			a := strings.Index(out, fmt.Sprintf("RAC-UNIT %d\n", n))
			b := strings.Index(out, fmt.Sprintf("RAC-UNIT-END %d\n", n))
			if a >= 0 && b > a {
				for _, ln := range strings.Split(out[a:b], "\n") {
					if racMatches(o, ln) {
						r.Confirmed = true
						r.Note = "confirmed on the real code (runtime-checked build): the function called with the argument values of the solver's model"
						r.Input = unitCall[o]
						r.Output = ln
					}
				}
			}
		}
		if best >= 0 {
			r.Confirmed = true
			r.Note = "confirmed on the real code (runtime-checked build): input from " + origin[best]
			r.Input = corpus[best]
			var lines []string
			for _, ln := range run.ByInput[best] {
				lines = append(lines, ln)
			}
			r.Output = strings.Join(lines, "\n")
		}
		res[o] = r
	}
	return res
}

// computeRacOldTypes records, for every function under contract, the type
// text of each old(...) expression as it must be written in that function's
// file (package qualifiers as imported there).
func computeRacOldTypes(p *Prog) {
	for _, fi := range p.Funcs {
		if fi.Contract == nil || fi.Decl == nil || fi.Decl.Body == nil {
			continue
		}
		file := p.Fset.Position(fi.Decl.Pos()).Filename
		dir := filepath.Dir(file)
		// import names of this file
		names := map[string]string{}
		for _, f := range fi.Pkg.Syntax {
			if p.Fset.Position(f.Pos()).Filename != file {
				continue
			}
			for _, im := range f.Imports {
				path := strings.Trim(im.Path.Value, "\"")
				if im.Name != nil {
					names[path] = im.Name.Name
				} else if ip := fi.Pkg.Imports[path]; ip != nil {
					names[path] = ip.Name
				}
			}
		}
		ok := true
		qual := func(pk *types.Package) string {
			if pk == fi.Pkg.Types {
				return ""
			}
			if n, found := names[pk.Path()]; found {
				return n
			}
			ok = false
			return pk.Name()
		}
		out := map[string]string{}
		for _, e := range fi.Ensures {
			ast.Inspect(e.Expr, func(n ast.Node) bool {
				call, isCall := n.(*ast.CallExpr)
				if !isCall || markerName(call) != "__old" {
					return true
				}
				ok = true
				t := fi.Pkg.TypesInfo.Types[call].Type
				txt := ""
				if t != nil {
					txt = types.TypeString(t, qual)
					if !ok || strings.Contains(txt, "untyped") {
						txt = ""
					}
				}
				// keyed by the text of the expression: positions do not align
				// (a range bound is evaluated twice in the instrumented form)
				var buf bytes.Buffer
				printer.Fprint(&buf, p.Fset, call.Args[0])
				key := stripSpace(buf.String())
				if prev, seen := out[key]; seen && prev != txt {
					txt = ""
				}
				out[key] = txt
				return false // nested old() is not hoisted separately
			})
		}
		if racOldTypes[dir] == nil {
			racOldTypes[dir] = map[string]map[string]string{}
		}
		racOldTypes[dir][fi.Key] = out
	}
}

// ---------------------------------------------------------------- run-time sweep (thorough tier)

type sweepHit struct {
	Line  string
	Input string
	All   string
}

func firstLineOf(s string) string {
	if i := strings.IndexByte(s, '\n'); i >= 0 {
		return s[:i]
	}
	return s
}

// racSweep runs the run-time checked build over all corpora and returns the
// failures that belong to the given functions (one per distinct failure line,
// with the shortest input that produced it).
func racSweep(p *Prog, funcs map[string]bool) ([]sweepHit, int, error) {
	var corpus []string
	corpus = append(corpus, smallCorpus()...)
	corpus = append(corpus, faultCorpus()...)
	corpus = append(corpus, runtimeCorpus()...)
	corpus = append(corpus, controlCorpus()...)
	corpus = append(corpus, valueCorpus()...)
	corpus = append(corpus, exampleCorpus(p.Root)...)
	computeRacOldTypes(p)
	run, err := runRAC(p.Root, corpus, "lex,parse,analyze,run", 900*time.Second)
	if err != nil {
		return nil, len(corpus), err
	}
	belongs := func(line string) bool {
		// RAC-FAIL pkg.Recv.Func#...   RAC-PREFAIL caller#pre:Callee   RAC-PANIC where stage=...
		f := strings.Fields(line)
		if len(f) < 2 {
			return false
		}
		name := f[1]
		switch f[0] {
		case "RAC-FAIL":
			if i := strings.Index(name, "#"); i > 0 {
				return funcs[name[:i]]
			}
		case "RAC-PREFAIL":
			// the callee whose precondition was violated
			if i := strings.Index(name, "#pre:"); i > 0 {
				callee := name[i+5:]
				for fn := range funcs {
					if strings.HasSuffix(fn, "."+callee) {
						return true
					}
				}
			}
		case "RAC-PANIC":
			w := strings.TrimSuffix(name, ".func1")
			for fn := range funcs {
				if fn == w || strings.HasPrefix(w, fn+".") {
					return true
				}
			}
		}
		return false
	}
	best := map[string]int{}
	for idx := 0; idx < len(corpus); idx++ {
		for _, ln := range run.ByInput[idx] {
			if strings.HasPrefix(ln, "RAC-INFO") || !belongs(ln) {
				continue
			}
			key := ln
			if strings.HasPrefix(ln, "RAC-PANIC") {
				key = strings.Join(strings.Fields(ln)[:2], " ")
			}
			if b, ok := best[key]; !ok || len(corpus[idx]) < len(corpus[b]) {
				best[key] = idx
			}
		}
	}
	var hits []sweepHit
	for _, k := range sortedKeys(best) {
		idx := best[k]
		hits = append(hits, sweepHit{Line: k, Input: corpus[idx], All: strings.Join(run.ByInput[idx], "\n")})
	}
	return hits, len(corpus), nil
}

func stripSpace(s string) string {
	return strings.Map(func(r rune) rune {
		if r == ' ' || r == '\t' || r == '\n' {
			return -1
		}
		return r
	}, s)
}
