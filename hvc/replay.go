package main

// replayModel turns a solver model into an in-package Go test and runs it
// against the real code. (Filled in by replay_gen.go where supported.)
func replayModel(p *Prog, o *Obligation) *ReplayResult {
	return &ReplayResult{Confirmed: false, Note: "model not replayable for this unit kind"}
}
