package main

import (
	"fmt"
	"go/ast"
	"go/parser"
	"go/token"
	"os"
	"path/filepath"
	"regexp"
	"sort"
	"strconv"
	"strings"
)

const markerFile = "zz_hvc_markers_gen.go"

func markerSource(pkgName string) string {
	return "package " + pkgName + `

func __requires(label string, f func() bool)             {}
func __ensures(label string, f func() bool)              {}
func __invariant(label string, f func() bool)            {}
func __decreases(f ...func() int)                        {}
func __modifies(locs ...any)                             {}
func __modifiesAll()                                     {}
func __flag(name string, val string)                     {}
func __old[T any](x T) T                                 { return x }
func __imp(a, b bool) bool                               { return !a || b }
func __iff(a, b bool) bool                               { return a == b }
func __forall(lo, hi int, f func(int) bool) bool         { return true }
func __exists(lo, hi int, f func(int) bool) bool         { return true }
func __fresh(x any) bool                                 { return true }
func __elems(x any) any                                  { return x }
func __replaytext(x []rune)                              {}
func __samefn(a, b any) bool                             { return true }
func __entry[T any](x T) T                               { return x }
func __rangeindex() int                                  { return 0 }
func __lemma(f func())                                   {}
func __disjoint(a, b any) bool                           { return true }
func __assumes(label string, f func() bool)              {}
func __heapof(x any) any                                 { return x }
func __split(f func() int, lo, hi int)                   {}
func __splitcond(at int, f func() bool)                  {}
func __ghost(name string) int                            { return 0 }
func __ghostset(name string, f func() int)               {}
func __lastsent[T any](ch chan T) (r T)                  { return }
func __sentcount[T any](ch chan T) int                   { return 0 }
func __assert(label string, f func() bool)               {}
func __assumeat(label string, f func() bool)             {}
func __ghostat(name string, f func() int)                {}
func __progress(label string, f func() bool)             {}
func __assumedensures(label string, f func() bool)       {}
func __iterstart[T any](x T) T                           { return x }
func __atcall[T any](x T) T                              { return x }
func __mapcontent(m any) any                             { return m }
func __dynpreserves(locs ...any)                         {}
func __forallkeys[K comparable, V any](m map[K]V, f func(K) bool) bool { return true }
func __haskey[K comparable, V any](m map[K]V, k K) bool  { _, ok := m[k]; return ok }
func __visited(k any) bool                               { return true }
func __forallcells[T any](f func(T) bool) bool           { return true }
func __samecontent(a, b any) bool                        { return true }
func __samemap(a, b any) bool                            { return true }
func __cancelled(ctx any) bool                           { return false }
func __rlocks(mu any) int                                { return 0 }
func __wlocked(mu any) bool                              { return false }
`
}

type insertion struct {
	off  int
	text string
}

// funcKey returns "Recv.Name" or "Name" for a declaration.
func funcKey(fd *ast.FuncDecl) string {
	if fd.Recv != nil && len(fd.Recv.List) > 0 {
		t := fd.Recv.List[0].Type
		if s, ok := t.(*ast.StarExpr); ok {
			t = s.X
		}
		if ix, ok := t.(*ast.IndexExpr); ok {
			t = ix.X
		}
		if id, ok := t.(*ast.Ident); ok {
			return id.Name + "." + fd.Name.Name
		}
	}
	return fd.Name.Name
}

// contractTarget: a function body under contract: a declared function, or a
// function literal that is the value of a string-keyed entry of a composite
// literal inside a declared function (contract key Func["key"]), presented as
// a synthetic declaration with the enclosing function's receiver.
type contractTarget struct {
	fd *ast.FuncDecl
	c  *Contract
}

func contractTargets(f *ast.File, byKey map[string]*Contract) []contractTarget {
	var out []contractTarget
	for _, d := range f.Decls {
		fd, ok := d.(*ast.FuncDecl)
		if !ok || fd.Body == nil {
			continue
		}
		key := funcKey(fd)
		if c := byKey[key]; c != nil {
			out = append(out, contractTarget{fd, c})
		}
		for _, k := range sortedKeys(byKey) {
			if !strings.HasPrefix(k, key+"[\"") || !strings.HasSuffix(k, "\"]") {
				continue
			}
			name := k[len(key)+2 : len(k)-2]
			if lit := keyedFuncLit(fd.Body, name); lit != nil {
				out = append(out, contractTarget{&ast.FuncDecl{Recv: fd.Recv, Name: ast.NewIdent(fd.Name.Name + "[\"" + name + "\"]"), Type: lit.Type, Body: lit.Body}, byKey[k]})
			}
		}
	}
	return out
}

// keyedFuncLit: the first function literal inside the value of the entry
// "name": ... of a composite literal in body.
func keyedFuncLit(body *ast.BlockStmt, name string) *ast.FuncLit {
	var found *ast.FuncLit
	ast.Inspect(body, func(n ast.Node) bool {
		if found != nil {
			return false
		}
		kv, ok := n.(*ast.KeyValueExpr)
		if !ok {
			return true
		}
		bl, ok := kv.Key.(*ast.BasicLit)
		if !ok || bl.Kind != token.STRING || bl.Value != strconv.Quote(name) {
			return true
		}
		ast.Inspect(kv.Value, func(m ast.Node) bool {
			if fl, ok := m.(*ast.FuncLit); ok && found == nil {
				found = fl
			}
			return found == nil
		})
		return false
	})
	return found
}

// collectLoops returns the for/range statements of a body in source order,
// not descending into function literals.
func collectLoops(body *ast.BlockStmt) []ast.Stmt {
	var loops []ast.Stmt
	ast.Inspect(body, func(n ast.Node) bool {
		switch n.(type) {
		case *ast.FuncLit:
			return false
		case *ast.ForStmt, *ast.RangeStmt:
			loops = append(loops, n.(ast.Stmt))
		}
		return true
	})
	sort.Slice(loops, func(i, j int) bool { return loops[i].Pos() < loops[j].Pos() })
	return loops
}

// stmtContaining: the first (in source order) innermost statement of a block
// list whose source text contains frag.
func stmtContaining(body *ast.BlockStmt, src []byte, off func(token.Pos) int, frag string) ast.Stmt {
	var found ast.Stmt
	var visitList func(list []ast.Stmt)
	visitList = func(list []ast.Stmt) {
		for _, s := range list {
			if found != nil {
				return
			}
			if !strings.Contains(string(src[off(s.Pos()):off(s.End())]), frag) {
				continue
			}
			// prefer a nested statement
			ast.Inspect(s, func(n ast.Node) bool {
				if found != nil {
					return false
				}
				switch b := n.(type) {
				case *ast.BlockStmt:
					if n != ast.Node(s) {
						visitList(b.List)
					}
				case *ast.CaseClause:
					visitList(b.Body)
				case *ast.CommClause:
					visitList(b.Body)
				}
				return found == nil
			})
			if found == nil {
				found = s
			}
			return
		}
	}
	visitList(body.List)
	return found
}

// stmtsContaining: every innermost statement whose source text contains frag.
func stmtsContaining(body *ast.BlockStmt, src []byte, off func(token.Pos) int, frag string) []ast.Stmt {
	var out []ast.Stmt
	var visitList func(list []ast.Stmt)
	visitList = func(list []ast.Stmt) {
		for _, s := range list {
			if !strings.Contains(string(src[off(s.Pos()):off(s.End())]), frag) {
				continue
			}
			n0 := len(out)
			ast.Inspect(s, func(n ast.Node) bool {
				switch b := n.(type) {
				case *ast.BlockStmt:
					if n != ast.Node(s) {
						visitList(b.List)
						return false
					}
				case *ast.CaseClause:
					visitList(b.Body)
					return false
				case *ast.CommClause:
					visitList(b.Body)
					return false
				case *ast.FuncLit:
					return false
				}
				return true
			})
			if len(out) == n0 {
				out = append(out, s)
			}
		}
	}
	visitList(body.List)
	return out
}

func loopBody(s ast.Stmt) *ast.BlockStmt {
	switch l := s.(type) {
	case *ast.ForStmt:
		return l.Body
	case *ast.RangeStmt:
		return l.Body
	}
	return nil
}

type OverlayResult struct {
	Files     map[string][]byte
	Problems  []string // contract-target-missing etc.
	Contracts []*Contract
}

func quoteLabel(s string) string { return fmt.Sprintf("%q", s) }

// buildOverlay instruments the files of one package directory with the
// markers of its contracts. Original bytes are kept; text is only inserted
// (on the same line, so line numbers do not move).
func buildOverlay(pkgDir string) (*OverlayResult, error) {
	res := &OverlayResult{Files: map[string][]byte{}}
	contracts, err := parseContracts(pkgDir)
	if err != nil {
		return nil, err
	}
	res.Contracts = contracts
	if len(contracts) == 0 {
		return res, nil
	}
	byKey := map[string]*Contract{}
	for _, c := range contracts {
		if byKey[c.Key] != nil {
			res.Problems = append(res.Problems, fmt.Sprintf("duplicate contract for %s in %s", c.Key, c.File))
		}
		byKey[c.Key] = c
	}
	pf, err := parsePkgFiles(pkgDir)
	if err != nil {
		return nil, err
	}
	contracts = applyTemplates(contracts, pf.funcKeys)
	res.Contracts = contracts
	byKey = map[string]*Contract{}
	for _, c := range contracts {
		byKey[c.Key] = c
	}
	fset := pf.fset
	pkgName := pf.pkgName
	for _, file := range pf.files {
		path, src, f := file.path, file.src, file.ast
		var ins []insertion
		for _, it := range contractTargets(f, byKey) {
			fd, c := it.fd, it.c
			c.Used = true
			off := func(p token.Pos) int { return fset.Position(p).Offset }
			var sb strings.Builder
			// result names
			resultName := "__ret0"
			lastErr := lastErrName(fd, src, off)
			res0 := firstResultType(fd, src, off)
			if fd.Type.Results != nil {
				k := 0
				named := false
				for _, fld := range fd.Type.Results.List {
					if len(fld.Names) > 0 {
						named = true
					}
				}
				if named {
					resultName = fd.Type.Results.List[0].Names[0].Name
					// also provide __retK aliases? not needed: spec uses names
				} else {
					for _, fld := range fd.Type.Results.List {
						typ := string(src[off(fld.Type.Pos()):off(fld.Type.End())])
						fmt.Fprintf(&sb, " var __ret%d %s; _ = __ret%d;", k, typ, k)
						k++
					}
				}
			}
			for _, r := range c.Requires {
				if txt, ok := substAll(r.Text, fd, lastErr, res0); ok {
					fmt.Fprintf(&sb, " __requires(%s, func() bool { return %s });", quoteLabel(r.Label), specToGo(txt, resultName))
				}
			}
			for _, r := range c.Assumes {
				if txt, ok := substAll(r.Text, fd, lastErr, res0); ok {
					fmt.Fprintf(&sb, " __assumes(%s, func() bool { return %s });", quoteLabel(r.Label), specToGo(txt, resultName))
				}
			}
			for _, r := range c.Ensures {
				if txt, ok := substAll(r.Text, fd, lastErr, res0); ok {
					fmt.Fprintf(&sb, " __ensures(%s, func() bool { return %s });", quoteLabel(r.Label), specToGo(txt, resultName))
				}
			}
			for _, r := range c.AssumedEns {
				if txt, ok := substAll(r.Text, fd, lastErr, res0); ok {
					fmt.Fprintf(&sb, " __assumedensures(%s, func() bool { return %s });", quoteLabel(r.Label), specToGo(txt, resultName))
				}
			}
			for _, g := range c.GhostSets {
				if k := strings.Index(g, "="); k > 0 {
					name := strings.TrimSpace(g[:k])
					fmt.Fprintf(&sb, " __ghostset(%q, func() int { return int(%s) });", name, specToGo(rewriteGhost(g[k+1:]), resultName))
				}
			}
			for _, l := range c.Lemmas {
				if txt, ok := substAll(l, fd, lastErr, res0); ok {
					fmt.Fprintf(&sb, " __lemma(func() { %s });", specToGo(txt, resultName))
				}
			}
			if c.HasMod {
				var locs []string
				for _, m := range c.Modifies {
					if strings.HasPrefix(m, "elems(") || strings.HasPrefix(m, "mapcontent(") {
						locs = append(locs, "__"+m)
					} else if strings.HasPrefix(m, "heap(") {
						// heap(T): every cell of type T
						locs = append(locs, "__heapof((*"+strings.TrimSuffix(strings.TrimPrefix(m, "heap("), ")")+")(nil))")
					} else {
						locs = append(locs, "&("+m+")")
					}
				}
				fmt.Fprintf(&sb, " __modifies(%s);", strings.Join(locs, ", "))
			}
			if len(c.Decreases) > 0 {
				var ds []string
				for _, d := range c.Decreases {
					ds = append(ds, fmt.Sprintf("func() int { return int(%s) }", specToGo(d, resultName)))
				}
				fmt.Fprintf(&sb, " __decreases(%s);", strings.Join(ds, ", "))
			}
			if len(c.DynPreserves) > 0 {
				var locs []string
				for _, m := range c.DynPreserves {
					if txt, ok := substSelf(m, fd, c.FromTemplate); ok {
						locs = append(locs, "&("+txt+")")
					}
				}
				fmt.Fprintf(&sb, " __dynpreserves(%s);", strings.Join(locs, ", "))
			}
			if sp := c.Flags["split"]; sp != "" {
				// "split <expr> in lo..hi": verify once per value of expr
				if k := strings.LastIndex(sp, " in "); k > 0 {
					if d := strings.Index(sp[k+4:], ".."); d > 0 {
						fmt.Fprintf(&sb, " __split(func() int { return int(%s) }, %s, %s);", specToGo(sp[:k], resultName), strings.TrimSpace(sp[k+4:k+4+d]), strings.TrimSpace(sp[k+4+d+2:]))
					}
				}
			}
			for _, sc := range c.SplitConds {
				fmt.Fprintf(&sb, " __splitcond(%s, func() bool { return %s });", sc[0], specToGo(sc[1], resultName))
			}
			if rt := c.Flags["replaytext"]; rt != "" {
				fmt.Fprintf(&sb, " __replaytext(%s);", rt)
			}
			for _, k := range sortedKeys(c.Flags) {
				fmt.Fprintf(&sb, " __flag(%q, %q);", k, c.Flags[k])
			}
			ins = append(ins, insertion{off(fd.Body.Lbrace) + 1, sb.String()})
			for _, a := range c.Asserts {
				marker := "__assert"
				if a.Assume {
					marker = "__assumeat"
				}
				closure := "func() bool { return " + specToGo(a.Text, resultName) + " }"
				label := a.Label
				if a.Ghost != "" {
					// the label slot carries the counter's name, the closure its new value
					marker = "__ghostat"
					label = a.Ghost
					closure = "func() int { return int(" + specToGo(a.Text, resultName) + ") }"
				}
				if a.Each {
					sts := stmtsContaining(fd.Body, src, off, a.After)
					if len(sts) == 0 {
						res.Problems = append(res.Problems, fmt.Sprintf("contract-target-missing: assert %s of %s: no statement contains %q", a.Label, c.Key, a.After))
					}
					for _, at := range sts {
						ins = append(ins, insertion{off(at.Pos()), fmt.Sprintf(marker+"(%s, %s); ", quoteLabel(label), closure)})
					}
					continue
				}
				at := stmtContaining(fd.Body, src, off, a.After)
				if at == nil {
					res.Problems = append(res.Problems, fmt.Sprintf("contract-target-missing: assert %s of %s: no statement contains %q", a.Label, c.Key, a.After))
					continue
				}
				if a.Before {
					ins = append(ins, insertion{off(at.Pos()), fmt.Sprintf(marker+"(%s, %s); ", quoteLabel(label), closure)})
					continue
				}
				ins = append(ins, insertion{off(at.End()), fmt.Sprintf("; "+marker+"(%s, %s);", quoteLabel(label), closure)})
			}
			loops := collectLoops(fd.Body)
			res.Problems = append(res.Problems, resolveNamedLoops(c, loops, src, off)...)
			if len(c.LoopInv) > 0 || len(c.LoopDec) > 0 {
				for n, l := range loops {
					_, isFor := l.(*ast.ForStmt)
					// range loops terminate by construction: they take the default
					// invariants but no decreases clause
					dec := c.LoopDec
					if !isFor {
						dec = nil
					}
					if lc := c.Loops[n+1]; lc != nil {
						// explicit loop contract: the template's clauses are added to it
						if !lc.merged {
							lc.Invariants = append(append([]Clause(nil), c.LoopInv...), lc.Invariants...)
							if len(lc.Decreases) == 0 {
								lc.Decreases = dec
							}
							lc.merged = true
						}
						continue
					}
					c.Loops[n+1] = &LoopContract{Invariants: c.LoopInv, Decreases: dec, merged: true}
				}
			}
			for n, lc := range c.Loops {
				if n < 1 || n > len(loops) {
					res.Problems = append(res.Problems, fmt.Sprintf("contract-target-missing: loop %d of %s (function has %d loops)", n, c.Key, len(loops)))
					continue
				}
				var lb strings.Builder
				for _, r := range lc.Invariants {
					fmt.Fprintf(&lb, " __invariant(%s, func() bool { return %s });", quoteLabel(r.Label), specToGo(r.Text, resultName))
				}
				for _, r := range lc.Progress {
					fmt.Fprintf(&lb, " __progress(%s, func() bool { return %s });", quoteLabel(r.Label), specToGo(r.Text, resultName))
				}
				if len(lc.Decreases) > 0 {
					var ds []string
					for _, d := range lc.Decreases {
						ds = append(ds, fmt.Sprintf("func() int { return int(%s) }", specToGo(d, resultName)))
					}
					fmt.Fprintf(&lb, " __decreases(%s);", strings.Join(ds, ", "))
				}
				ins = append(ins, insertion{off(loopBody(loops[n-1]).Lbrace) + 1, lb.String()})
			}
		}
		if len(ins) == 0 {
			continue
		}
		sort.SliceStable(ins, func(i, j int) bool { return ins[i].off < ins[j].off })
		var out []byte
		prev := 0
		for _, in := range ins {
			out = append(out, src[prev:in.off]...)
			out = append(out, in.text...)
			prev = in.off
		}
		out = append(out, src[prev:]...)
		res.Files[path] = out
	}
	for _, c := range contracts {
		if !c.Used && !c.IsTemplate && !c.IsDirective {
			res.Problems = append(res.Problems, fmt.Sprintf("contract-target-missing: func %s (%s:%d)", c.Key, c.File, c.Line))
		}
	}
	if pkgName != "" {
		res.Files[filepath.Join(pkgDir, markerFile)] = []byte(markerSource(pkgName))
	}
	return res, nil
}

type parsedFile struct {
	path string
	src  []byte
	ast  *ast.File
}

type parsedPkg struct {
	fset     *token.FileSet
	files    []parsedFile
	pkgName  string
	funcKeys []string
}

func parsePkgFiles(pkgDir string) (*parsedPkg, error) {
	entries, err := os.ReadDir(pkgDir)
	if err != nil {
		return nil, err
	}
	pp := &parsedPkg{fset: token.NewFileSet()}
	for _, e := range entries {
		name := e.Name()
		if e.IsDir() || !strings.HasSuffix(name, ".go") || strings.HasSuffix(name, "_test.go") {
			continue
		}
		path := filepath.Join(pkgDir, name)
		src, err := os.ReadFile(path)
		if err != nil {
			return nil, err
		}
		f, err := parser.ParseFile(pp.fset, path, src, parser.ParseComments)
		if err != nil {
			return nil, fmt.Errorf("parse %s: %v", path, err)
		}
		if pp.pkgName == "" {
			pp.pkgName = f.Name.Name
		}
		pp.files = append(pp.files, parsedFile{path, src, f})
		if name == contractFileName {
			continue // specification functions are never template targets
		}
		for _, d := range f.Decls {
			if fd, ok := d.(*ast.FuncDecl); ok && fd.Body != nil {
				pp.funcKeys = append(pp.funcKeys, funcKey(fd))
			}
		}
	}
	return pp, nil
}

// lastErrName: the name by which the last result can be referred to when it
// is an error pointer ("lasterr" in template clauses); "" otherwise.
func lastErrName(fd *ast.FuncDecl, src []byte, off func(token.Pos) int) string {
	if fd.Type.Results == nil || len(fd.Type.Results.List) == 0 {
		return ""
	}
	list := fd.Type.Results.List
	last := list[len(list)-1]
	typ := string(src[off(last.Type.Pos()):off(last.Type.End())])
	if typ != "*errors.Error" {
		return ""
	}
	if len(last.Names) > 0 {
		return last.Names[len(last.Names)-1].Name
	}
	n := 0
	for _, f := range list {
		n++
		_ = f
	}
	return fmt.Sprintf("__ret%d", n-1)
}

var lastErrRe = regexp.MustCompile(`\blasterr\b`)

// substLastErr resolves the template placeholders of a clause: an optional
// guard "[T]" (the clause applies only to functions whose first result has
// the type text T) and "lasterr" (the trailing *errors.Error result).
func substLastErr(text, name string) (string, bool) {
	return substClause(text, name, "")
}

// recvIdent: the receiver's identifier ("" when unnamed or blank).
func recvIdent(fd *ast.FuncDecl) string {
	if fd.Recv == nil || len(fd.Recv.List) == 0 || len(fd.Recv.List[0].Names) == 0 {
		return ""
	}
	n := fd.Recv.List[0].Names[0].Name
	if n == "_" {
		return ""
	}
	return n
}

var selfRe = regexp.MustCompile(`\bself\b`)

// substSelf renames "self" in template clauses to the method's own receiver
// name; a clause about self cannot be stated for an unnamed receiver.
func substSelf(text string, fd *ast.FuncDecl, fromTemplate bool) (string, bool) {
	if !selfRe.MatchString(text) || fd.Recv == nil {
		return text, true
	}
	n := recvIdent(fd)
	if n == "" {
		return "", false
	}
	if n == "self" {
		return text, true
	}
	return selfRe.ReplaceAllString(text, n), true
}

func substClause(text, name, res0 string) (string, bool) {
	text = strings.TrimSpace(text)
	if strings.HasPrefix(text, "[") {
		if i := strings.Index(text, "]"); i > 0 {
			ok := false
			for _, alt := range strings.Split(text[1:i], "|") {
				if strings.TrimSpace(alt) == res0 {
					ok = true
				}
			}
			if !ok {
				return "", false
			}
			text = strings.TrimSpace(text[i+1:])
		}
	}
	if !lastErrRe.MatchString(text) {
		return text, true
	}
	if name == "" {
		return "", false
	}
	return lastErrRe.ReplaceAllString(text, name), true
}

func firstResultType(fd *ast.FuncDecl, src []byte, off func(token.Pos) int) string {
	if fd.Type.Results == nil || len(fd.Type.Results.List) == 0 {
		return ""
	}
	f := fd.Type.Results.List[0]
	return string(src[off(f.Type.Pos()):off(f.Type.End())])
}

func substAll(text string, fd *ast.FuncDecl, lastErr, res0 string) (string, bool) {
	t, ok := substClause(text, lastErr, res0)
	if !ok {
		return "", false
	}
	return substSelf(t, fd, true)
}

var ghostRe = regexp.MustCompile(`\bghost\((\w+)\)`)

// rewriteGhost turns ghost(name) into ghost("name") so that it is a Go call.
func rewriteGhost(s string) string { return ghostRe.ReplaceAllString(s, `ghost("$1")`) }

// resolveNamedLoops attaches the loop contracts addressed by a header fragment
// to the ordinal of the first loop whose header contains the fragment.
func resolveNamedLoops(c *Contract, loops []ast.Stmt, src []byte, off func(token.Pos) int) []string {
	var problems []string
	for _, nl := range c.NamedLoops {
		if nl.done {
			continue
		}
		nl.done = true
		found := 0
		frag, want := nl.Frag, 1
		if h := strings.LastIndex(frag, "#"); h >= 0 {
			if k, err := strconv.Atoi(frag[h+1:]); err == nil && k >= 1 {
				frag, want = frag[:h], k
			}
		}
		for n, l := range loops {
			hdr := string(src[off(l.Pos()):off(loopBody(l).Lbrace)])
			if strings.Contains(hdr, frag) {
				want--
				if want == 0 {
					found = n + 1
					break
				}
			}
		}
		if found == 0 {
			problems = append(problems, fmt.Sprintf("contract-target-missing: no loop of %s has a header containing %q", c.Key, nl.Frag))
			continue
		}
		lc := c.Loops[found]
		if lc == nil {
			c.Loops[found] = nl.LC
			continue
		}
		lc.Invariants = append(lc.Invariants, nl.LC.Invariants...)
		lc.Progress = append(lc.Progress, nl.LC.Progress...)
		if len(lc.Decreases) == 0 {
			lc.Decreases = nl.LC.Decreases
		}
	}
	return problems
}
