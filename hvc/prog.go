package main

import (
	"fmt"
	"go/ast"
	"go/constant"
	"go/token"
	"go/types"
	"os"
	"path/filepath"
	"sort"
	"strings"

	"golang.org/x/tools/go/packages"
)

type SpecClause struct {
	Label string
	Expr  ast.Expr // the closure's returned expression
	Text  string
}

type ghostSet struct {
	Name string
	Expr ast.Expr
}

type LoopInfo struct {
	Ordinal    int
	Progress   []SpecClause
	Invariants []SpecClause
	Decreases  []ast.Expr
}

type FuncInfo struct {
	Obj              *types.Func
	Decl             *ast.FuncDecl
	Lit              *ast.FuncLit // for function-literal units
	Pkg              *packages.Package
	Key              string
	Contract         *Contract
	Requires         []SpecClause
	GhostSets        []ghostSet
	SplitConds       []splitCond
	Assumes          []SpecClause
	Ensures          []SpecClause
	AssumedEns       []SpecClause
	Modifies         []ast.Expr
	DynPreserves     []ast.Expr
	HasMod           bool
	Decreases        []ast.Expr
	Flags            map[string]string
	ReplayText       ast.Expr
	SplitExpr        ast.Expr
	SplitLo, SplitHi int64
	Lemmas           []*ast.FuncLit
	Loops            map[ast.Stmt]*LoopInfo
	LoopList         []ast.Stmt
	Results          []*types.Var
	markers          map[ast.Stmt]bool
	eff              *Effects
}

func (fi *FuncInfo) Name() string {
	return shortPkg(fi.Pkg.PkgPath) + "." + fi.Key
}

func (fi *FuncInfo) Body() *ast.BlockStmt {
	if fi.Lit != nil {
		return fi.Lit.Body
	}
	return fi.Decl.Body
}

func (fi *FuncInfo) Flag(name string) bool { _, ok := fi.Flags[name]; return ok }

func shortPkg(path string) string {
	path = strings.TrimPrefix(path, "github.com/smarthome-go/homescript/v3/homescript/")
	path = strings.TrimPrefix(path, "github.com/smarthome-go/homescript/v3/")
	if path == "github.com/smarthome-go/homescript/v3/homescript" {
		return "homescript"
	}
	return path
}

type Prog struct {
	Root        string
	Fset        *token.FileSet
	Pkgs        map[string]*packages.Package
	Funcs       map[*types.Func]*FuncInfo
	ByName      map[string]*FuncInfo
	Contracts   []*Contract
	Problems    []string
	Reg         *TypeReg
	impls       map[string][]types.Type
	allNamed    []*types.TypeName
	infoOf      map[*ast.File]*packages.Package
	addrTaken   map[*types.Var]bool
	recCache    map[*FuncInfo]bool
	overlay     map[string][]byte
	NonNilElems map[string]bool
	PureMethods map[string]string // "<iface type text>.<Method>" -> options ("nonnil"): assumed deterministic functions of the receiver
}

const modPath = "github.com/smarthome-go/homescript/v3"

func loadProg(root string) (*Prog, error) {
	p := &Prog{Root: root, Pkgs: map[string]*packages.Package{}, Funcs: map[*types.Func]*FuncInfo{}, ByName: map[string]*FuncInfo{}, Reg: NewTypeReg(), impls: map[string][]types.Type{}, recCache: map[*FuncInfo]bool{}, NonNilElems: map[string]bool{}, PureMethods: map[string]string{}}
	overlay := map[string][]byte{}
	p.overlay = overlay
	contractsByDir := map[string][]*Contract{}
	err := filepath.Walk(filepath.Join(root, "homescript"), func(path string, info os.FileInfo, err error) error {
		if err != nil {
			return err
		}
		if !info.IsDir() {
			return nil
		}
		if _, err := os.Stat(filepath.Join(path, contractFileName)); err != nil {
			return nil
		}
		res, err := buildOverlay(path)
		if err != nil {
			return err
		}
		for f, b := range res.Files {
			overlay[f] = b
		}
		p.Problems = append(p.Problems, res.Problems...)
		p.Contracts = append(p.Contracts, res.Contracts...)
		for _, c := range res.Contracts {
			if c.IsDirective {
				// "<type text> elems-nonnil": type text as printed by hvc (package-relative)
				f := strings.Fields(c.Directive)
				if len(f) == 2 && f[1] == "elems-nonnil" {
					p.NonNilElems[f[0]] = true
				}
				if len(f) >= 2 && f[0] == "assume-pure" {
					// the assumption holds for the units of the package that states it
					p.PureMethods[path+"|"+f[1]] = strings.Join(f[2:], " ")
				}
			}
		}
		contractsByDir[path] = res.Contracts
		return nil
	})
	if err != nil {
		return nil, err
	}
	cfg := &packages.Config{
		Mode:       packages.NeedName | packages.NeedFiles | packages.NeedSyntax | packages.NeedTypes | packages.NeedTypesInfo | packages.NeedImports | packages.NeedDeps | packages.NeedTypesSizes,
		Dir:        root,
		BuildFlags: []string{"-tags=verif"},
		Overlay:    overlay,
		Env:        append(os.Environ(), "GOFLAGS=-mod=mod", "GOPROXY=off", "GOSUMDB=off", "GOTOOLCHAIN=local"),
	}
	pkgs, err := packages.Load(cfg, "./homescript/...")
	if err != nil {
		return nil, err
	}
	var errs []string
	packages.Visit(pkgs, nil, func(pkg *packages.Package) {
		if strings.HasPrefix(pkg.PkgPath, modPath) {
			for _, e := range pkg.Errors {
				errs = append(errs, fmt.Sprintf("%s: %s", e.Pos, e.Msg))
			}
		}
		p.Pkgs[pkg.PkgPath] = pkg
		if p.Fset == nil {
			p.Fset = pkg.Fset
		}
	})
	if len(errs) > 0 {
		return nil, fmt.Errorf("type errors in instrumented tree:\n  %s", strings.Join(errs, "\n  "))
	}
	for _, pkg := range p.Pkgs {
		if !strings.HasPrefix(pkg.PkgPath, modPath) {
			continue
		}
		dir := ""
		if len(pkg.GoFiles) > 0 {
			dir = filepath.Dir(pkg.GoFiles[0])
		}
		byKey := map[string]*Contract{}
		for _, c := range contractsByDir[dir] {
			byKey[c.Key] = c
		}
		for _, f := range pkg.Syntax {
			for _, d := range f.Decls {
				fd, ok := d.(*ast.FuncDecl)
				if !ok {
					continue
				}
				obj, _ := pkg.TypesInfo.Defs[fd.Name].(*types.Func)
				if obj == nil {
					continue
				}
				fi := &FuncInfo{Obj: obj, Decl: fd, Pkg: pkg, Key: funcKey(fd), Flags: map[string]string{}, Loops: map[ast.Stmt]*LoopInfo{}, markers: map[ast.Stmt]bool{}}
				fi.Contract = byKey[fi.Key]
				if fd.Body != nil {
					p.extractMarkers(fi)
				}
				p.Funcs[obj] = fi
				p.ByName[fi.Name()] = fi
				// function-literal units: contracts keyed Func["entry"]
				if fd.Body != nil {
					for _, k := range sortedKeys(byKey) {
						if !strings.HasPrefix(k, fi.Key+"[\"") || !strings.HasSuffix(k, "\"]") {
							continue
						}
						name := k[len(fi.Key)+2 : len(k)-2]
						lit := keyedFuncLit(fd.Body, name)
						if lit == nil {
							p.Problems = append(p.Problems, fmt.Sprintf("contract-target-missing: function literal %s", k))
							continue
						}
						lfi := &FuncInfo{Lit: lit, Decl: fd, Pkg: pkg, Key: k, Contract: byKey[k], Flags: map[string]string{}, Loops: map[ast.Stmt]*LoopInfo{}, markers: map[ast.Stmt]bool{}}
						byKey[k].Used = true
						p.extractMarkers(lfi)
						litInfos[lit] = lfi
						p.ByName[lfi.Name()] = lfi
					}
				}
			}
		}
		scope := pkg.Types.Scope()
		for _, n := range scope.Names() {
			if tn, ok := scope.Lookup(n).(*types.TypeName); ok && !tn.IsAlias() {
				p.allNamed = append(p.allNamed, tn)
			}
		}
	}
	sort.Slice(p.allNamed, func(i, j int) bool {
		return typeStr(p.allNamed[i].Type()) < typeStr(p.allNamed[j].Type())
	})
	return p, nil
}

func markerName(call *ast.CallExpr) string {
	if id, ok := call.Fun.(*ast.Ident); ok && strings.HasPrefix(id.Name, "__") {
		return id.Name
	}
	return ""
}

func closureExpr(e ast.Expr) ast.Expr {
	fl, ok := e.(*ast.FuncLit)
	if !ok || len(fl.Body.List) != 1 {
		return nil
	}
	rs, ok := fl.Body.List[0].(*ast.ReturnStmt)
	if !ok || len(rs.Results) != 1 {
		return nil
	}
	return rs.Results[0]
}

func strLit(e ast.Expr, info *types.Info) string {
	if tv, ok := info.Types[e]; ok && tv.Value != nil && tv.Value.Kind() == constant.String {
		return constant.StringVal(tv.Value)
	}
	return ""
}

func (p *Prog) exprText(e ast.Expr) string {
	pos := p.Fset.Position(e.Pos())
	end := p.Fset.Position(e.End())
	_ = end
	return fmt.Sprintf("%s:%d", filepath.Base(pos.Filename), pos.Line)
}

// extractMarkers reads the marker statements at the head of a function body
// and at the head of its loop bodies.
func (p *Prog) extractMarkers(fi *FuncInfo) {
	info := fi.Pkg.TypesInfo
	body := fi.Body()
	sig := fi.sig()
	named := sig.Results().Len() > 0 && sig.Results().At(0).Name() != ""
	if named {
		for i := 0; i < sig.Results().Len(); i++ {
			fi.Results = append(fi.Results, sig.Results().At(i))
		}
	}
	p.readMarkerPrefix(fi, info, body.List, nil, !named)
	fi.LoopList = collectLoops(body)
	for i, l := range fi.LoopList {
		li := &LoopInfo{Ordinal: i + 1}
		fi.Loops[l] = li
		p.readMarkerPrefix(fi, info, loopBody(l).List, li, false)
	}
	if !named && len(fi.Results) == 0 {
		// no markers inserted: results stay anonymous; executor creates them lazily
	}
}

func (p *Prog) readMarkerPrefix(fi *FuncInfo, info *types.Info, list []ast.Stmt, li *LoopInfo, wantRets bool) {
	for _, s := range list {
		switch st := s.(type) {
		case *ast.DeclStmt:
			gd, ok := st.Decl.(*ast.GenDecl)
			if !ok || len(gd.Specs) != 1 {
				return
			}
			vs, ok := gd.Specs[0].(*ast.ValueSpec)
			if !ok || len(vs.Names) != 1 || !strings.HasPrefix(vs.Names[0].Name, "__ret") {
				return
			}
			if v, ok := info.Defs[vs.Names[0]].(*types.Var); ok && wantRets {
				fi.Results = append(fi.Results, v)
			}
			fi.markers[s] = true
		case *ast.AssignStmt:
			if len(st.Lhs) == 1 && len(st.Rhs) == 1 {
				if id, ok := st.Rhs[0].(*ast.Ident); ok && strings.HasPrefix(id.Name, "__ret") {
					fi.markers[s] = true
					continue
				}
			}
			return
		case *ast.ExprStmt:
			call, ok := st.X.(*ast.CallExpr)
			if !ok {
				return
			}
			switch markerName(call) {
			case "__requires":
				fi.Requires = append(fi.Requires, SpecClause{Label: strLit(call.Args[0], info), Expr: closureExpr(call.Args[1])})
			case "__assumes":
				fi.Assumes = append(fi.Assumes, SpecClause{Label: strLit(call.Args[0], info), Expr: closureExpr(call.Args[1])})
			case "__ensures":
				fi.Ensures = append(fi.Ensures, SpecClause{Label: strLit(call.Args[0], info), Expr: closureExpr(call.Args[1])})
			case "__assumedensures":
				fi.AssumedEns = append(fi.AssumedEns, SpecClause{Label: strLit(call.Args[0], info), Expr: closureExpr(call.Args[1])})
			case "__progress":
				if li != nil {
					li.Progress = append(li.Progress, SpecClause{Label: strLit(call.Args[0], info), Expr: closureExpr(call.Args[1])})
				}
			case "__invariant":
				if li != nil {
					li.Invariants = append(li.Invariants, SpecClause{Label: strLit(call.Args[0], info), Expr: closureExpr(call.Args[1])})
				}
			case "__decreases":
				var ds []ast.Expr
				for _, a := range call.Args {
					ds = append(ds, closureExpr(a))
				}
				if li != nil {
					li.Decreases = ds
				} else {
					fi.Decreases = ds
				}
			case "__modifies":
				fi.HasMod = true
				fi.Modifies = append(fi.Modifies, call.Args...)
			case "__dynpreserves":
				fi.DynPreserves = append(fi.DynPreserves, call.Args...)
			case "__ghostset":
				fi.GhostSets = append(fi.GhostSets, ghostSet{Name: strLit(call.Args[0], info), Expr: closureExpr(call.Args[1])})
			case "__lemma":
				if fl, ok := call.Args[0].(*ast.FuncLit); ok {
					fi.Lemmas = append(fi.Lemmas, fl)
				}
			case "__split":
				fi.SplitExpr = closureExpr(call.Args[0])
				if tv, ok := info.Types[call.Args[1]]; ok && tv.Value != nil {
					fi.SplitLo, _ = constant.Int64Val(constant.ToInt(tv.Value))
				}
				if tv, ok := info.Types[call.Args[2]]; ok && tv.Value != nil {
					fi.SplitHi, _ = constant.Int64Val(constant.ToInt(tv.Value))
				}
			case "__splitcond":
				sc := splitCond{Expr: closureExpr(call.Args[1])}
				if tv, ok := info.Types[call.Args[0]]; ok && tv.Value != nil {
					sc.At, _ = constant.Int64Val(constant.ToInt(tv.Value))
				}
				fi.SplitConds = append(fi.SplitConds, sc)
			case "__replaytext":
				fi.ReplayText = call.Args[0]
			case "__flag":
				fi.Flags[strLit(call.Args[0], info)] = strLit(call.Args[1], info)
			default:
				return
			}
			fi.markers[s] = true
		default:
			return
		}
	}
}

// implementers returns the concrete types (T or *T for named T declared in the
// loaded module) that implement the interface type it.
func (p *Prog) implementers(it types.Type) []types.Type {
	key := typeStr(it)
	if r, ok := p.impls[key]; ok {
		return r
	}
	iface, _ := it.Underlying().(*types.Interface)
	var out []types.Type
	if iface != nil {
		for _, tn := range p.allNamed {
			t := tn.Type()
			if _, isIface := t.Underlying().(*types.Interface); isIface {
				continue
			}
			if named, ok := t.(*types.Named); ok && named.TypeParams().Len() > 0 {
				continue
			}
			if types.Implements(t, iface) {
				out = append(out, t)
			} else if pt := types.NewPointer(t); types.Implements(pt, iface) {
				out = append(out, pt)
			}
		}
	}
	p.impls[key] = out
	return out
}

// closedWorld reports whether the interface is declared in the module and
// non-empty, so that its implementers can be enumerated.
func (p *Prog) closedWorld(it types.Type) bool {
	n, ok := it.(*types.Named)
	if !ok {
		if a, isAlias := it.(*types.Alias); isAlias {
			return p.closedWorld(types.Unalias(a))
		}
		return false
	}
	if n.Obj().Pkg() == nil || !strings.HasPrefix(n.Obj().Pkg().Path(), modPath) {
		return false
	}
	iface, _ := n.Underlying().(*types.Interface)
	return iface != nil && iface.NumMethods() > 0
}

func (p *Prog) pos(n ast.Node) token.Position { return p.Fset.Position(n.Pos()) }

func (p *Prog) relPos(n ast.Node) string {
	pos := p.pos(n)
	rel, err := filepath.Rel(p.Root, pos.Filename)
	if err != nil {
		rel = pos.Filename
	}
	return fmt.Sprintf("%s:%d", rel, pos.Line)
}

// splitCond: a condition by which the unit of one split value is divided further.
type splitCond struct {
	At   int64
	Expr ast.Expr
}
