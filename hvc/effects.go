package main

import (
	"go/ast"
	"go/token"
	"go/types"
	"strings"
)

// Effects is a syntactic over-approximation of what a piece of code may do to
// the heaps: which heap arrays it may write, in which it may allocate, which
// it may read; Top means "unknown" (a call through a function value or into
// unmodelled external code).
type Effects struct {
	Writes   map[string]Sort
	Allocs   map[string]Sort
	Reads    map[string]Sort
	Top      bool
	calls    map[*types.Func]bool
	rawCalls map[*types.Func]bool
}

func newEffects() *Effects {
	return &Effects{Writes: map[string]Sort{}, Allocs: map[string]Sort{}, Reads: map[string]Sort{}, calls: map[*types.Func]bool{}}
}

func (e *Effects) Allocates() bool { return len(e.Allocs) > 0 }

func (e *Effects) union(o *Effects) bool {
	ch := false
	for k, v := range o.Writes {
		if _, ok := e.Writes[k]; !ok {
			e.Writes[k] = v
			ch = true
		}
	}
	for k, v := range o.Allocs {
		if _, ok := e.Allocs[k]; !ok {
			e.Allocs[k] = v
			ch = true
		}
	}
	for k, v := range o.Reads {
		if _, ok := e.Reads[k]; !ok {
			e.Reads[k] = v
			ch = true
		}
	}
	if o.Top && !e.Top {
		e.Top = true
		ch = true
	}
	return ch
}

// pure external packages: calls into them have no effect on modelled heaps
var purePkgs = map[string]bool{
	"fmt": true, "strings": true, "strconv": true, "math": true, "unicode": true, "unicode/utf8": true,
	"errors": true, "time": true, "context": true, "sync": true, "os": true, "math/rand": true,
	"github.com/agnivade/levenshtein": true, "golang.org/x/text/unicode/norm": true, "sort": true,
	"github.com/davecgh/go-spew/spew": true, "bytes": true, "sync/atomic": true, "reflect": true,
	"encoding/json": true, "slices": true, "maps": true,
}

type effCollector struct {
	p    *Prog
	info *types.Info
	eff  *Effects
}

func (c *effCollector) sortOf(t types.Type) Sort { return c.p.Reg.sortOf(t) }

func (c *effCollector) cellHeaps(t types.Type, into map[string]Sort) {
	if st, ok := t.Underlying().(*types.Struct); ok {
		ss := c.p.Reg.structOf(t)
		for i := 0; i < st.NumFields(); i++ {
			into[fieldHeap(t, st.Field(i).Name())] = ss.Fields[i].Sort
		}
		return
	}
	into[heapOfType(t)] = c.sortOf(t)
}

func (c *effCollector) mapHeaps(mt *types.Map, into map[string]Sort) {
	n := sanitize(typeStr(mt))
	ks, vs := c.sortOf(mt.Key()), c.sortOf(mt.Elem())
	into["M$"+n+"$dom"] = mapSort(ks, SBool)
	into["M$"+n+"$val"] = mapSort(ks, vs)
}

func (c *effCollector) typeOf(e ast.Expr) types.Type {
	if tv, ok := c.info.Types[e]; ok {
		return tv.Type
	}
	if id, ok := e.(*ast.Ident); ok {
		if o := c.info.ObjectOf(id); o != nil {
			return o.Type()
		}
	}
	return nil
}

// access records the heap touched by an lvalue/rvalue expression
func (c *effCollector) access(e ast.Expr, into map[string]Sort) {
	e = ast.Unparen(e)
	switch e := e.(type) {
	case *ast.Ident:
		if v, ok := c.info.ObjectOf(e).(*types.Var); ok && v.Pkg() != nil && v.Parent() == v.Pkg().Scope() {
			into[globalHeap(v)] = c.sortOf(v.Type())
		}
		// boxed locals: their cells are fresh; recorded as allocation by the declaration scan
		if v, ok := c.info.ObjectOf(e).(*types.Var); ok && !v.IsField() && v.Pkg() != nil && v.Parent() != v.Pkg().Scope() {
			// a boxed local is written through its heap; we cannot know boxing here, so record
			// the cell heaps conservatively only when the variable's address is taken somewhere
			// (handled in scan via addrTaken)
		}
	case *ast.SelectorExpr:
		sel, ok := c.info.Selections[e]
		if !ok {
			c.access(e.Sel, into)
			return
		}
		if sel.Kind() != types.FieldVal {
			return
		}
		curT := c.typeOf(e.X)
		if curT == nil {
			return
		}
		rootIsPtr := false
		if _, isPtr := curT.Underlying().(*types.Pointer); isPtr {
			rootIsPtr = true
		}
		first := true
		for _, idx := range sel.Index() {
			if pt, isPtr := curT.Underlying().(*types.Pointer); isPtr {
				curT = pt.Elem()
				stt, ok := curT.Underlying().(*types.Struct)
				if !ok {
					return
				}
				ss := c.p.Reg.structOf(curT)
				into[fieldHeap(curT, stt.Field(idx).Name())] = ss.Fields[idx].Sort
				curT = stt.Field(idx).Type()
				first = false
				continue
			}
			stt, ok := curT.Underlying().(*types.Struct)
			if !ok {
				return
			}
			curT = stt.Field(idx).Type()
		}
		if !rootIsPtr && first {
			// field of a value: the effect is on the root expression
			c.access(e.X, into)
		}
	case *ast.StarExpr:
		if pt, ok := c.typeOf(e.X).Underlying().(*types.Pointer); ok {
			c.cellHeaps(pt.Elem(), into)
		}
	case *ast.IndexExpr:
		t := c.typeOf(e.X)
		if t == nil {
			return
		}
		switch u := t.Underlying().(type) {
		case *types.Slice:
			c.cellHeaps(u.Elem(), into)
		case *types.Map:
			c.mapHeaps(u, into)
		}
	}
}

func (c *effCollector) scan(n ast.Node) {
	if n == nil {
		return
	}
	ast.Inspect(n, func(n ast.Node) bool {
		switch s := n.(type) {
		case *ast.FuncLit:
			// the body may run later; include its effects
			return true
		case *ast.AssignStmt:
			for _, l := range s.Lhs {
				c.access(l, c.eff.Writes)
				c.boxedWrite(l)
			}
		case *ast.IncDecStmt:
			c.access(s.X, c.eff.Writes)
			c.boxedWrite(s.X)
		case *ast.RangeStmt:
			if s.Tok == token.ASSIGN {
				if s.Key != nil {
					c.access(s.Key, c.eff.Writes)
				}
				if s.Value != nil {
					c.access(s.Value, c.eff.Writes)
				}
			}
			if t := c.typeOf(s.X); t != nil {
				switch u := t.Underlying().(type) {
				case *types.Slice:
					c.cellHeaps(u.Elem(), c.eff.Reads)
				case *types.Map:
					c.mapHeaps(u, c.eff.Reads)
				}
			}
		case *ast.SelectorExpr:
			c.access(s, c.eff.Reads)
		case *ast.StarExpr:
			if tv, ok := c.info.Types[s]; ok && !tv.IsType() {
				c.access(s, c.eff.Reads)
			}
		case *ast.IndexExpr:
			c.access(s, c.eff.Reads)
		case *ast.Ident:
			c.access(s, c.eff.Reads)
			if v, ok := c.info.ObjectOf(s).(*types.Var); ok && c.p.addrTaken[v] {
				c.cellHeaps(v.Type(), c.eff.Reads)
			}
		case *ast.UnaryExpr:
			if s.Op == token.AND {
				if cl, ok := ast.Unparen(s.X).(*ast.CompositeLit); ok {
					if t := c.typeOf(cl); t != nil {
						c.cellHeaps(t, c.eff.Allocs)
					}
				}
				if id, ok := ast.Unparen(s.X).(*ast.Ident); ok {
					if v, ok := c.info.ObjectOf(id).(*types.Var); ok {
						c.cellHeaps(v.Type(), c.eff.Allocs)
						c.cellHeaps(v.Type(), c.eff.Writes)
					}
				}
			}
		case *ast.CompositeLit:
			t := c.typeOf(s)
			if t != nil {
				switch u := t.Underlying().(type) {
				case *types.Slice:
					c.cellHeaps(u.Elem(), c.eff.Allocs)
				case *types.Map:
					c.mapHeaps(u, c.eff.Allocs)
				case *types.Struct:
					// elided &T in element position of []*T / map[..]*T is covered by evalElt; record
					_ = u
				}
				// elements with elided pointer types
				switch u := t.Underlying().(type) {
				case *types.Slice:
					if pt, ok := u.Elem().Underlying().(*types.Pointer); ok {
						c.cellHeaps(pt.Elem(), c.eff.Allocs)
					}
				case *types.Map:
					if pt, ok := u.Elem().Underlying().(*types.Pointer); ok {
						c.cellHeaps(pt.Elem(), c.eff.Allocs)
					}
				}
			}
		case *ast.CallExpr:
			c.call(s)
		case *ast.GoStmt, *ast.SendStmt:
		}
		return true
	})
}

func (c *effCollector) boxedWrite(l ast.Expr) {
	// assignment to (a field of) a local whose address is taken somewhere
	for {
		switch t := ast.Unparen(l).(type) {
		case *ast.SelectorExpr:
			if _, ok := c.info.Selections[t]; ok {
				l = t.X
				continue
			}
		case *ast.Ident:
			if v, ok := c.info.ObjectOf(t).(*types.Var); ok && c.p.addrTaken[v] {
				c.cellHeaps(v.Type(), c.eff.Writes)
				c.cellHeaps(v.Type(), c.eff.Allocs)
			}
		}
		return
	}
}

func (c *effCollector) call(call *ast.CallExpr) {
	if tv, ok := c.info.Types[call.Fun]; ok && tv.IsType() {
		// conversion
		if t := tv.Type; t != nil {
			if sl, ok := t.Underlying().(*types.Slice); ok {
				c.cellHeaps(sl.Elem(), c.eff.Allocs)
			}
			if isStringType(t) && len(call.Args) == 1 {
				if at := c.typeOf(call.Args[0]); at != nil {
					if sl, ok := at.Underlying().(*types.Slice); ok {
						c.cellHeaps(sl.Elem(), c.eff.Reads)
					}
				}
			}
		}
		return
	}
	fun := ast.Unparen(call.Fun)
	var obj types.Object
	switch f := fun.(type) {
	case *ast.Ident:
		obj = c.info.Uses[f]
	case *ast.SelectorExpr:
		if sel, ok := c.info.Selections[f]; ok {
			obj = sel.Obj()
			if sel.Kind() == types.FieldVal {
				obj = nil // call of a function-typed field
				c.eff.Top = true
				return
			}
			// interface method?
			if recvT := sel.Recv(); isIfaceType(recvT) {
				m := obj.(*types.Func)
				if c.p.closedWorld(recvT) {
					for _, it := range c.p.implementers(recvT) {
						ms := types.NewMethodSet(it)
						if s := ms.Lookup(m.Pkg(), m.Name()); s != nil {
							if fn, ok := s.Obj().(*types.Func); ok {
								c.eff.calls[fn.Origin()] = true
							}
						}
					}
					return
				}
				// open-world interface: Error()/String() and friends are treated as pure
				switch m.Name() {
				case "Error", "String", "Done", "Err", "Deadline", "Value", "Unwrap":
					return
				}
				c.eff.Top = true
				return
			}
			// pointer-receiver method on a local value: the local is written
			if m, ok := obj.(*types.Func); ok {
				if sig := m.Type().(*types.Signature); sig.Recv() != nil {
					if _, ptr := sig.Recv().Type().(*types.Pointer); ptr {
						if xt := c.typeOf(f.X); xt != nil {
							if _, isPtr := xt.Underlying().(*types.Pointer); !isPtr {
								c.access(f.X, c.eff.Writes)
								c.boxedWrite(f.X)
								// copy-in/copy-out temp
								c.cellHeaps(xt, c.eff.Allocs)
							}
						}
					}
				}
			}
		} else {
			obj = c.info.Uses[f.Sel]
		}
	case *ast.FuncLit:
		return // body scanned by Inspect
	default:
		c.eff.Top = true
		return
	}
	switch o := obj.(type) {
	case *types.Builtin:
		switch o.Name() {
		case "append":
			if t := c.typeOf(call); t != nil {
				if sl, ok := t.Underlying().(*types.Slice); ok {
					c.cellHeaps(sl.Elem(), c.eff.Allocs)
					c.cellHeaps(sl.Elem(), c.eff.Writes)
				}
			}
		case "make", "new":
			if t := c.typeOf(call); t != nil {
				switch u := t.Underlying().(type) {
				case *types.Slice:
					c.cellHeaps(u.Elem(), c.eff.Allocs)
				case *types.Map:
					c.mapHeaps(u, c.eff.Allocs)
				case *types.Pointer:
					c.cellHeaps(u.Elem(), c.eff.Allocs)
				case *types.Chan:
					c.eff.Allocs["H$chan"] = SInt
				}
			}
		case "copy":
			if t := c.typeOf(call.Args[0]); t != nil {
				if sl, ok := t.Underlying().(*types.Slice); ok {
					c.cellHeaps(sl.Elem(), c.eff.Writes)
				}
			}
		case "delete", "clear":
			if t := c.typeOf(call.Args[0]); t != nil {
				if mt, ok := t.Underlying().(*types.Map); ok {
					c.mapHeaps(mt, c.eff.Writes)
				}
			}
		}
	case *types.Func:
		if o.Pkg() == nil {
			return
		}
		if strings.HasPrefix(o.Pkg().Path(), modPath) {
			if strings.HasPrefix(o.Name(), "__") {
				return
			}
			c.eff.calls[o.Origin()] = true
			return
		}
		if purePkgs[o.Pkg().Path()] {
			// sort.* write the elements of their argument
			if o.Pkg().Path() == "sort" || o.Pkg().Path() == "slices" {
				for _, a := range call.Args {
					if t := c.typeOf(a); t != nil {
						if sl, ok := t.Underlying().(*types.Slice); ok {
							c.cellHeaps(sl.Elem(), c.eff.Writes)
						}
					}
				}
			}
			if o.Pkg().Path() == "encoding/json" && (o.Name() == "Unmarshal" || o.Name() == "Decode") {
				c.eff.Top = true
			}
			// functions returning fresh slices / pointers
			if sig, ok := o.Type().(*types.Signature); ok {
				for i := 0; i < sig.Results().Len(); i++ {
					switch u := sig.Results().At(i).Type().Underlying().(type) {
					case *types.Slice:
						c.cellHeaps(u.Elem(), c.eff.Allocs)
					case *types.Pointer:
						c.cellHeaps(u.Elem(), c.eff.Allocs)
					}
				}
			}
			return
		}
		c.eff.Top = true
	case *types.Var:
		// call through a function value
		c.eff.Top = true
	case nil:
		c.eff.Top = true
	}
}

// computeAddrTaken finds all local variables whose address is taken with &.
func (p *Prog) computeAddrTaken() {
	p.addrTaken = map[*types.Var]bool{}
	for _, fi := range p.Funcs {
		if fi.Decl.Body == nil {
			continue
		}
		info := fi.Pkg.TypesInfo
		ast.Inspect(fi.Decl.Body, func(n ast.Node) bool {
			if ue, ok := n.(*ast.UnaryExpr); ok && ue.Op == token.AND {
				if id, ok := ast.Unparen(ue.X).(*ast.Ident); ok {
					if v, ok := info.ObjectOf(id).(*types.Var); ok {
						p.addrTaken[v] = true
					}
				}
			}
			return true
		})
	}
}

// computeEffects runs the whole-program fixpoint.
func (p *Prog) computeEffects() {
	p.computeAddrTaken()
	for _, fi := range p.Funcs {
		c := &effCollector{p: p, info: fi.Pkg.TypesInfo, eff: newEffects()}
		if fi.Decl.Body != nil {
			c.scan(fi.Decl.Body)
		}
		fi.eff = c.eff
	}
	// a function with a modifies clause is seen by its callers through that
	// clause (checked when the function itself is verified): it writes only
	// the named locations; everything else it touches is freshly allocated.
	for _, fi := range p.Funcs {
		if !fi.HasMod {
			continue
		}
		c := &effCollector{p: p, info: fi.Pkg.TypesInfo, eff: newEffects()}
		for _, m := range fi.Modifies {
			m = ast.Unparen(m)
			if call, ok := m.(*ast.CallExpr); ok && markerName(call) == "__heapof" {
				if t := c.typeOf(call.Args[0]); t != nil {
					if pt, ok := t.Underlying().(*types.Pointer); ok {
						c.cellHeaps(pt.Elem(), c.eff.Writes)
					}
				}
				continue
			}
			if call, ok := m.(*ast.CallExpr); ok && markerName(call) == "__elems" {
				if t := c.typeOf(call.Args[0]); t != nil {
					if sl, ok := t.Underlying().(*types.Slice); ok {
						c.cellHeaps(sl.Elem(), c.eff.Writes)
					}
				}
				continue
			}
			if call, ok := m.(*ast.CallExpr); ok && markerName(call) == "__mapcontent" {
				if t := c.typeOf(call.Args[0]); t != nil {
					if mt, ok := t.Underlying().(*types.Map); ok {
						c.mapHeaps(mt, c.eff.Writes)
					}
				}
				continue
			}
			if ue, ok := m.(*ast.UnaryExpr); ok && ue.Op == token.AND {
				c.access(ue.X, c.eff.Writes)
			}
		}
		c.eff.Reads = fi.eff.Reads
		c.eff.Allocs = fi.eff.Allocs
		if fi.eff.Top || len(fi.eff.calls) > 0 {
			c.eff.Allocs["H$any"] = SInt
		}
		c.eff.rawCalls = fi.eff.calls
		fi.eff = c.eff
	}
	for changed := true; changed; {
		changed = false
		for _, fi := range p.Funcs {
			for callee := range fi.eff.calls {
				cf := p.Funcs[callee]
				if cf == nil {
					if !fi.eff.Top {
						fi.eff.Top = true
						changed = true
					}
					continue
				}
				if cf.Decl.Body == nil {
					continue
				}
				if fi.eff.union(cf.eff) {
					changed = true
				}
			}
		}
	}
}

func (p *Prog) effects(fi *FuncInfo) *Effects {
	if fi.eff == nil {
		// function literal unit
		c := &effCollector{p: p, info: fi.Pkg.TypesInfo, eff: newEffects()}
		c.scan(fi.Body())
		p.closeEffects(c.eff)
		fi.eff = c.eff
	}
	return fi.eff
}

func (p *Prog) closeEffects(e *Effects) {
	for callee := range e.calls {
		if cf := p.Funcs[callee]; cf != nil && cf.eff != nil {
			e.union(cf.eff)
		} else if cf == nil {
			e.Top = true
		}
	}
}

// effectsOfNodes: effects of a statement list inside fi (for loop havoc).
func (p *Prog) effectsOfNodes(fi *FuncInfo, info *types.Info, nodes ...ast.Node) *Effects {
	c := &effCollector{p: p, info: info, eff: newEffects()}
	for _, n := range nodes {
		if n != nil && !isNilNode(n) {
			c.scan(n)
		}
	}
	p.closeEffects(c.eff)
	return c.eff
}

func isNilNode(n ast.Node) bool {
	switch v := n.(type) {
	case *ast.BlockStmt:
		return v == nil
	case ast.Stmt:
		return v == nil
	case ast.Expr:
		return v == nil
	}
	return false
}

// isRecursive: can fi reach itself through static calls?
func (p *Prog) isRecursive(fi *FuncInfo) bool {
	if r, ok := p.recCache[fi]; ok {
		return r
	}
	seen := map[*types.Func]bool{}
	var dfs func(f *FuncInfo) bool
	dfs = func(f *FuncInfo) bool {
		calls := p.effects(f).calls
		if p.effects(f).rawCalls != nil {
			calls = p.effects(f).rawCalls
		}
		for callee := range calls {
			if callee == fi.Obj {
				return true
			}
			if seen[callee] {
				continue
			}
			seen[callee] = true
			if cf := p.Funcs[callee]; cf != nil && dfs(cf) {
				return true
			}
		}
		return false
	}
	r := dfs(fi)
	p.recCache[fi] = r
	return r
}
