package main

import (
	"fmt"
	"os"
	"path/filepath"
	"regexp"
	"strconv"
	"strings"
)

// A Clause is one requires/ensures/invariant expression with a stable label.
type Clause struct {
	Label string // user label (after '@') or ordinal
	Text  string // original spec text
	Go    string // preprocessed Go expression
}

// AssertClause: an intermediate assertion placed after a statement of the body
type AssertClause struct {
	Label  string
	After  string // fragment of the source text of the statement after (or before) which the assertion holds
	Before bool
	Each   bool // before-each: at every innermost statement containing the fragment
	Text   string
	Assume bool   // "assume @label after|before <fragment> :: expr": assumed at that point, not proved (listed in the evidence)
	Ghost  string // "ghostat @label after|before <fragment> :: name = expr": ghost counter update at that point
}

type LoopContract struct {
	Invariants []Clause
	Progress   []Clause // must hold at every back edge; may mention iterstart(e)
	Decreases  []string
	merged     bool
}

type Contract struct {
	PkgDir    string
	Key       string // "Recv.Name" or "Name"
	Serves    []string
	Requires  []Clause
	Ensures   []Clause
	Modifies  []string
	HasMod    bool
	Decreases []string
	Loops     map[int]*LoopContract
	Flags     map[string]string
	File      string
	Line      int
	Used      bool
	// templates
	IsDirective   bool
	Directive     string
	IsTemplate    bool
	TemplRecv     string // receiver type name
	TemplPattern  string // function name glob
	Except        []string
	AssumedEns    []Clause       // free postconditions: used at call sites, not proved for the unit (listed in the evidence)
	Assumes       []Clause       // free preconditions: assumed for the body, not required of callers (listed in the evidence)
	AssumePre     []string       // callees whose preconditions are assumed, not proved, at this function's call sites (listed in the evidence)
	AssumeUnreach []string       // explicit panic sites (by a fragment of their source text) assumed unreachable; listed in the evidence
	GhostSets     []string       // "name = expr": ghost counter updates performed by a call to this function
	DynPreserves  []string       // places assumed unchanged by calls through function values made by this function (listed in the evidence)
	Lemmas        []string       // ghost lemma calls instantiated before the postconditions are checked
	NamedLoops    []*NamedLoop   // loop contracts addressed by a fragment of the loop header
	SplitConds    [][2]string    // "splitcond at K :: cond" (value of the split expression, condition)
	Asserts       []AssertClause // "assert @label after <source fragment> :: expr": proof obligation after the first statement containing the fragment
	LoopInv       []Clause       // default invariants for every for-loop without own contract
	LoopDec       []string       // default decreases for every for-loop without own contract
	FromTemplate  bool
}

func (c *Contract) ServesProp(p string) bool {
	if p == "" || p == "all" {
		return true
	}
	for _, s := range c.Serves {
		if s == p {
			return true
		}
	}
	return false
}

var contractFileName = "zz_contracts_verif.go"

var blockRe = regexp.MustCompile(`(?s)/\*@(.*?)@\*/`)

var clauseKeywords = map[string]bool{
	"serves": true, "requires": true, "ensures": true, "modifies": true, "decreases": true,
	"loop": true, "flag": true, "pure": true, "trusted": true, "inline": true, "opaque": true,
	"nopanic": true, "maypanic": true, "assume-safety": true, "assume-casts": true, "dyncalls-pure": true, "functional": true, "unroll": true, "abstract": true, "allocates": true, "replaytext": true, "wrap": true, "overflow": true, "norac": true, "stages": true,
	"split": true, "assume-unreachable": true, "ghostset": true, "assumes": true, "assumepre": true, "lemma": true, "assert": true, "assume": true, "ghostat": true, "splitcond": true, "dyncall-preserves": true, "assumed-ensures": true, "except": true, "loopinvariant": true, "loopdecreases": true, "notemplate": true,
}

// parseContracts reads all /*@ ... @*/ blocks of a contracts file.
func parseContracts(pkgDir string) ([]*Contract, error) {
	path := filepath.Join(pkgDir, contractFileName)
	data, err := os.ReadFile(path)
	if err != nil {
		if os.IsNotExist(err) {
			return nil, nil
		}
		return nil, err
	}
	src := string(data)
	var out []*Contract
	if n, m := strings.Count(src, "@*/"), len(blockRe.FindAllStringIndex(src, -1)); n != m {
		return nil, fmt.Errorf("%s: %d contract terminators but %d well-formed /*@ ... @*/ blocks (reformatted by gofmt?)", path, n, m)
	}
	for _, loc := range blockRe.FindAllStringSubmatchIndex(src, -1) {
		body := src[loc[2]:loc[3]]
		line := 1 + strings.Count(src[:loc[0]], "\n")
		c, err := parseBlock(body)
		if err != nil {
			return nil, fmt.Errorf("%s:%d: %v", path, line, err)
		}
		c.PkgDir = pkgDir
		c.File = path
		c.Line = line
		out = append(out, c)
	}
	return out, nil
}

var templateRe = regexp.MustCompile(`^template\s+for\s+\(\s*(?:\w+\s+)?\*?\s*([\w*?]+)\s*\)\s*([\w*?]+)\s*$`)

var targetRe = regexp.MustCompile(`^func\s*(?:\(\s*(?:\w+\s+)?\*?\s*([\w.]+)\s*\))?\s*([\w.\[\]"]+)\s*$`)

func parseBlock(body string) (*Contract, error) {
	lines := strings.Split(body, "\n")
	// join continuation lines
	var clauses []string
	for _, ln := range lines {
		t := strings.TrimSpace(ln)
		if t == "" || strings.HasPrefix(t, "//") {
			continue
		}
		first := t
		if i := strings.IndexAny(t, " \t"); i >= 0 {
			first = t[:i]
		}
		if len(clauses) == 0 || clauseKeywords[first] {
			clauses = append(clauses, t)
		} else {
			clauses[len(clauses)-1] += " " + t
		}
	}
	if len(clauses) == 0 {
		return nil, fmt.Errorf("empty contract block")
	}
	c := &Contract{Loops: map[int]*LoopContract{}, Flags: map[string]string{}}
	if strings.HasPrefix(clauses[0], "assume-pure ") {
		// assume-pure <interface type text>.<Method> [nonnil]: calls of the method
		// through the interface are a deterministic function of the receiver value
		c.IsDirective = true
		c.Key = "directive:" + clauses[0]
		c.Directive = clauses[0]
		c.Used = true
		return c, nil
	}
	if strings.HasPrefix(clauses[0], "assume-invariant ") {
		c.IsDirective = true
		c.Key = "directive:" + clauses[0]
		c.Directive = strings.TrimSpace(strings.TrimPrefix(clauses[0], "assume-invariant "))
		c.Used = true
		return c, nil
	}
	if tm := templateRe.FindStringSubmatch(clauses[0]); tm != nil {
		c.IsTemplate = true
		c.TemplRecv = tm[1]
		c.TemplPattern = tm[2]
		c.Key = "template:" + tm[1] + "." + tm[2]
	} else {
		m := targetRe.FindStringSubmatch(clauses[0])
		if m == nil {
			return nil, fmt.Errorf("bad contract target %q", clauses[0])
		}
		if m[1] != "" {
			c.Key = m[1] + "." + m[2]
		} else {
			c.Key = m[2]
		}
	}
	for _, cl := range clauses[1:] {
		kw, rest := cl, ""
		if i := strings.IndexAny(cl, " \t"); i >= 0 {
			kw, rest = cl[:i], strings.TrimSpace(cl[i+1:])
		}
		switch kw {
		case "assume-unreachable":
			c.AssumeUnreach = append(c.AssumeUnreach, rest)
		case "ghostset":
			c.GhostSets = append(c.GhostSets, rest)
		case "assumed-ensures":
			c.AssumedEns = append(c.AssumedEns, mkClause(rest, len(c.AssumedEns)+1))
		case "assumes":
			c.Assumes = append(c.Assumes, mkClause(rest, len(c.Assumes)+1))
		case "assumepre":
			for _, e := range strings.Split(rest, ",") {
				if e = strings.TrimSpace(e); e != "" {
					c.AssumePre = append(c.AssumePre, e)
				}
			}
		case "dyncall-preserves":
			for _, e := range splitTop(rest, ',') {
				if e = strings.TrimSpace(e); e != "" {
					c.DynPreserves = append(c.DynPreserves, e)
				}
			}
		case "lemma":
			c.Lemmas = append(c.Lemmas, rest)
		case "splitcond":
			// "splitcond at K :: cond": for the value K of the split expression, verify once with cond and once with its negation
			body := strings.TrimSpace(strings.TrimPrefix(rest, "at"))
			k := strings.Index(body, " :: ")
			if !strings.HasPrefix(rest, "at") || k < 0 {
				return nil, fmt.Errorf("bad splitcond clause %q (want: splitcond at <value> :: cond)", rest)
			}
			c.SplitConds = append(c.SplitConds, [2]string{strings.TrimSpace(body[:k]), strings.TrimSpace(body[k+4:])})
		case "assert", "assume", "ghostat":
			cl := mkClause(rest, len(c.Asserts)+1)
			before := strings.HasPrefix(cl.Text, "before")
			each := strings.HasPrefix(cl.Text, "before-each")
			body := strings.TrimSpace(strings.TrimPrefix(strings.TrimPrefix(strings.TrimPrefix(cl.Text, "after"), "before-each"), "before"))
			k := strings.Index(body, " :: ")
			if !(strings.HasPrefix(cl.Text, "after") || before) || k < 0 {
				return nil, fmt.Errorf("bad assert clause %q (want: assert @label after|before <fragment> :: expr)", rest)
			}
			ac := AssertClause{Label: cl.Label, After: strings.TrimSpace(body[:k]), Before: before, Each: each, Text: strings.TrimSpace(body[k+4:]), Assume: kw == "assume"}
			if kw == "ghostat" {
				eq := strings.Index(ac.Text, "=")
				if eq < 0 {
					return nil, fmt.Errorf("bad ghostat clause %q (want: ghostat @label after|before <fragment> :: name = expr)", rest)
				}
				ac.Ghost = strings.TrimSpace(ac.Text[:eq])
				ac.Text = strings.TrimSpace(ac.Text[eq+1:])
			}
			c.Asserts = append(c.Asserts, ac)
		case "except":
			for _, e := range strings.Split(rest, ",") {
				if e = strings.TrimSpace(e); e != "" {
					c.Except = append(c.Except, e)
				}
			}
		case "loopinvariant":
			c.LoopInv = append(c.LoopInv, mkClause(rest, len(c.LoopInv)+1))
		case "loopdecreases":
			for _, d := range splitTop(rest, ',') {
				c.LoopDec = append(c.LoopDec, strings.TrimSpace(d))
			}
		case "serves":
			for _, s := range strings.Split(rest, ",") {
				if s = strings.TrimSpace(s); s != "" {
					c.Serves = append(c.Serves, s)
				}
			}
		case "requires":
			c.Requires = append(c.Requires, mkClause(rest, len(c.Requires)+1))
		case "ensures":
			c.Ensures = append(c.Ensures, mkClause(rest, len(c.Ensures)+1))
		case "modifies":
			c.HasMod = true
			for _, s := range splitTop(rest, ',') {
				if s = strings.TrimSpace(s); s != "" && s != "nothing" {
					c.Modifies = append(c.Modifies, s)
				}
			}
		case "decreases":
			for _, s := range splitTop(rest, ',') {
				c.Decreases = append(c.Decreases, strings.TrimSpace(s))
			}
		case "loop":
			var lc *LoopContract
			var parts []string
			if strings.HasPrefix(rest, "\"") {
				// loop "<fragment of the loop header>" kind clause: the loop is found by its text, not its ordinal
				q := strings.Index(rest[1:], "\"")
				if q < 0 {
					return nil, fmt.Errorf("bad loop clause %q", cl)
				}
				frag := rest[1 : 1+q]
				after := rest[q+2:]
				if strings.HasPrefix(after, "#") {
					// "frag"#k: the k-th loop whose header contains the fragment
					sp := strings.IndexAny(after, " \t")
					if sp < 0 {
						return nil, fmt.Errorf("bad loop clause %q", cl)
					}
					frag += after[:sp]
					after = after[sp:]
				}
				kv := strings.SplitN(strings.TrimSpace(after), " ", 2)
				if len(kv) < 2 {
					return nil, fmt.Errorf("bad loop clause %q", cl)
				}
				parts = []string{frag, kv[0], kv[1]}
				for _, nl := range c.NamedLoops {
					if nl.Frag == frag {
						lc = nl.LC
					}
				}
				if lc == nil {
					lc = &LoopContract{}
					c.NamedLoops = append(c.NamedLoops, &NamedLoop{Frag: frag, LC: lc})
				}
			} else {
				parts = strings.SplitN(rest, " ", 3)
				if len(parts) < 3 {
					return nil, fmt.Errorf("bad loop clause %q", cl)
				}
				n, err := strconv.Atoi(parts[0])
				if err != nil {
					return nil, fmt.Errorf("bad loop ordinal in %q", cl)
				}
				lc = c.Loops[n]
				if lc == nil {
					lc = &LoopContract{}
					c.Loops[n] = lc
				}
			}
			switch parts[1] {
			case "progress":
				lc.Progress = append(lc.Progress, mkClause(parts[2], len(lc.Progress)+1))
			case "invariant":
				lc.Invariants = append(lc.Invariants, mkClause(parts[2], len(lc.Invariants)+1))
			case "decreases":
				for _, s := range splitTop(parts[2], ',') {
					lc.Decreases = append(lc.Decreases, strings.TrimSpace(s))
				}
			default:
				return nil, fmt.Errorf("bad loop clause kind %q", parts[1])
			}
		default:
			if clauseKeywords[kw] {
				c.Flags[kw] = rest
				if rest == "" {
					c.Flags[kw] = "true"
				}
			} else {
				return nil, fmt.Errorf("unknown clause %q", cl)
			}
		}
	}
	return c, nil
}

func mkClause(text string, ord int) Clause {
	label := strconv.Itoa(ord)
	if strings.HasPrefix(text, "@") {
		i := strings.IndexAny(text, " \t")
		if i > 0 {
			label = text[1:i]
			text = strings.TrimSpace(text[i+1:])
		}
	}
	return Clause{Label: label, Text: text}
}

// splitTop splits s at top-level occurrences of sep (not inside (), [], {}, strings).
func splitTop(s string, sep byte) []string {
	var out []string
	depth := 0
	start := 0
	for i := 0; i < len(s); i++ {
		ch := s[i]
		switch ch {
		case '"', '\'', '`':
			i = skipQuoted(s, i)
		case '(', '[', '{':
			depth++
		case ')', ']', '}':
			depth--
		default:
			if ch == sep && depth == 0 {
				out = append(out, s[start:i])
				start = i + 1
			}
		}
	}
	out = append(out, s[start:])
	return out
}

func skipQuoted(s string, i int) int {
	q := s[i]
	for j := i + 1; j < len(s); j++ {
		if s[j] == '\\' && q != '`' {
			j++
			continue
		}
		if s[j] == q {
			return j
		}
	}
	return len(s) - 1
}

// indexTop finds the first top-level occurrence of sub in s, or -1.
func indexTop(s, sub string) int {
	depth := 0
	for i := 0; i < len(s); i++ {
		ch := s[i]
		switch ch {
		case '"', '\'', '`':
			i = skipQuoted(s, i)
			continue
		case '(', '[', '{':
			depth++
			continue
		case ')', ']', '}':
			depth--
			continue
		}
		if depth == 0 && strings.HasPrefix(s[i:], sub) {
			return i
		}
	}
	return -1
}

// racMode switches specToGo to executable (lazy) connectives.
var racMode bool

var wordRe = regexp.MustCompile(`[A-Za-z_][A-Za-z_0-9]*`)

// specToGo rewrites a spec expression into a Go expression over marker functions.
func specToGo(s string, resultName string) string {
	s = strings.TrimSpace(rewriteGhost(s))
	for _, q := range []string{"forall", "exists"} {
		if strings.HasPrefix(s, q+" ") {
			rest := strings.TrimSpace(s[len(q):])
			// <ident> in <lo>..<hi> :: body
			i := strings.Index(rest, " in ")
			j := indexTop(rest, "::")
			if i < 0 || j < 0 || j < i {
				return "__BAD_QUANTIFIER__"
			}
			v := strings.TrimSpace(rest[:i])
			rng := rest[i+4 : j]
			if kr := strings.TrimSpace(rng); kr == "allocated" && q == "forall" {
				// forall <ident> <pointer type> in allocated :: body  (all cells that exist in the pre-state)
				parts := strings.Fields(v)
				if len(parts) != 2 {
					return "__BAD_CELL_QUANTIFIER__"
				}
				return fmt.Sprintf("__forallcells(func(%s %s) bool { return %s })", parts[0], parts[1], specToGo(rest[j+2:], resultName))
			}
			if kr := strings.TrimSpace(rng); strings.HasPrefix(kr, "keys(") && strings.HasSuffix(kr, ")") && q == "forall" {
				// forall <ident> <type> in keys(<map>) :: body
				parts := strings.Fields(v)
				if len(parts) != 2 {
					return "__BAD_KEY_QUANTIFIER__"
				}
				return fmt.Sprintf("__forallkeys(%s, func(%s %s) bool { return %s })", specToGo(kr[5:len(kr)-1], resultName), parts[0], parts[1], specToGo(rest[j+2:], resultName))
			}
			k := indexTop(rng, "..")
			if k < 0 {
				return "__BAD_QUANTIFIER_RANGE__"
			}
			lo := specToGo(rng[:k], resultName)
			hi := specToGo(rng[k+2:], resultName)
			body := specToGo(rest[j+2:], resultName)
			return fmt.Sprintf("__%s(int(%s), int(%s), func(%s int) bool { return %s })", q, lo, hi, v, body)
		}
	}
	// a quantifier extends to the end of the expression; an implication that
	// starts before the first quantifier is the outer connective
	qpos, qcon := -1, ""
	for _, q := range []string{"forall ", "exists "} {
		for _, con := range []string{"&& ", "|| "} {
			if i := indexTop(s, con+q); i > 0 && (qpos < 0 || i < qpos) {
				qpos, qcon = i, con
			}
		}
	}
	ipos := indexTop(s, "==>")
	if j := indexTop(s, "<==>"); j >= 0 && (ipos < 0 || j <= ipos) {
		ipos = j
	}
	if qpos > 0 && (ipos < 0 || qpos < ipos) {
		return specToGo(s[:qpos], resultName) + " " + qcon + specToGo(s[qpos+len(qcon):], resultName)
	}
	if i := indexTop(s, "<==>"); i >= 0 {
		if racMode {
			return "((" + specToGo(s[:i], resultName) + ") == (" + specToGo(s[i+4:], resultName) + "))"
		}
		return "__iff(" + specToGo(s[:i], resultName) + ", " + specToGo(s[i+4:], resultName) + ")"
	}
	if i := indexTop(s, "==>"); i >= 0 {
		if racMode {
			// executable checks need a lazy implication
			return "(!(" + specToGo(s[:i], resultName) + ") || (" + specToGo(s[i+3:], resultName) + "))"
		}
		return "__imp(" + specToGo(s[:i], resultName) + ", " + specToGo(s[i+3:], resultName) + ")"
	}
	// recurse into bracketed groups
	var sb strings.Builder
	for i := 0; i < len(s); i++ {
		ch := s[i]
		switch ch {
		case '"', '\'', '`':
			j := skipQuoted(s, i)
			sb.WriteString(s[i : j+1])
			i = j
		case '(', '[', '{':
			close := map[byte]byte{'(': ')', '[': ']', '{': '}'}[ch]
			depth := 0
			j := i
			for ; j < len(s); j++ {
				if s[j] == '"' || s[j] == '\'' || s[j] == '`' {
					j = skipQuoted(s, j)
					continue
				}
				if s[j] == '(' || s[j] == '[' || s[j] == '{' {
					depth++
				} else if s[j] == ')' || s[j] == ']' || s[j] == '}' {
					depth--
					if depth == 0 {
						break
					}
				}
			}
			if j >= len(s) {
				sb.WriteString(s[i:])
				i = len(s)
				break
			}
			inner := s[i+1 : j]
			sb.WriteByte(ch)
			// argument lists: transform each comma-separated part
			parts := splitTop(inner, ',')
			for k, p := range parts {
				if k > 0 {
					sb.WriteString(",")
				}
				if strings.TrimSpace(p) == "" {
					sb.WriteString(p)
				} else if ch == '{' && indexTop(p, ":") >= 0 {
					// key: value in composite literal
					c := indexTop(p, ":")
					sb.WriteString(p[:c+1])
					sb.WriteString(specToGo(p[c+1:], resultName))
				} else if ch == '[' && indexTop(p, ":") >= 0 {
					sb.WriteString(p) // slice expression, leave alone
				} else {
					sb.WriteString(specToGo(p, resultName))
				}
			}
			sb.WriteByte(close)
			i = j
		default:
			if (ch >= 'a' && ch <= 'z') || (ch >= 'A' && ch <= 'Z') || ch == '_' {
				j := i
				for j < len(s) && (s[j] == '_' || (s[j] >= 'a' && s[j] <= 'z') || (s[j] >= 'A' && s[j] <= 'Z') || (s[j] >= '0' && s[j] <= '9')) {
					j++
				}
				w := s[i:j]
				prevDot := i > 0 && s[i-1] == '.'
				next := byte(0)
				if j < len(s) {
					next = s[j]
				}
				switch {
				case prevDot:
					sb.WriteString(w)
				case w == "old" && next == '(':
					sb.WriteString("__old")
				case w == "fresh" && next == '(':
					sb.WriteString("__fresh")
				case w == "samefn" && next == '(':
					sb.WriteString("__samefn")
				case w == "entry" && next == '(':
					sb.WriteString("__entry")
				case w == "ghost" && next == '(':
					sb.WriteString("__ghost")
				case w == "lastsent" && next == '(':
					sb.WriteString("__lastsent")
				case w == "sentcount" && next == '(':
					sb.WriteString("__sentcount")
				case w == "rlocks" && next == '(':
					sb.WriteString("__rlocks")
				case w == "wlocked" && next == '(':
					sb.WriteString("__wlocked")
				case w == "cancelled" && next == '(':
					sb.WriteString("__cancelled")
				case w == "iterstart" && next == '(':
					sb.WriteString("__iterstart")
				case w == "atcall" && next == '(':
					sb.WriteString("__atcall")
				case w == "samemap" && next == '(':
					sb.WriteString("__samemap")
				case w == "samecontent" && next == '(':
					sb.WriteString("__samecontent")
				case w == "haskey" && next == '(':
					sb.WriteString("__haskey")
				case w == "visited" && next == '(':
					sb.WriteString("__visited")
				case w == "sameslice" && next == '(':
					sb.WriteString("__samefn")
				case w == "disjoint" && next == '(':
					sb.WriteString("__disjoint")
				case w == "rangeindex" && next == '(':
					sb.WriteString("__rangeindex")
				case w == "result":
					sb.WriteString(resultName)
				case len(w) == 4 && strings.HasPrefix(w, "ret") && w[3] >= '0' && w[3] <= '9':
					sb.WriteString("__ret" + w[3:])
				default:
					sb.WriteString(w)
				}
				i = j - 1
			} else {
				sb.WriteByte(ch)
			}
		}
	}
	return sb.String()
}

// applyTemplates expands template contracts over the functions of a package.
// funcs maps "Recv.Name" to true for every declared method/function.
func applyTemplates(contracts []*Contract, funcs []string) []*Contract {
	var out []*Contract
	byKey := map[string]*Contract{}
	var templates []*Contract
	for _, c := range contracts {
		if c.IsTemplate {
			templates = append(templates, c)
			continue
		}
		out = append(out, c)
		byKey[c.Key] = c
	}
	for _, t := range templates {
		t.Used = true
		for _, fk := range funcs {
			i := strings.Index(fk, ".")
			if i < 0 {
				continue
			}
			if ok, _ := filepath.Match(t.TemplRecv, fk[:i]); !ok {
				continue
			}
			name := fk[i+1:]
			if ok, _ := filepath.Match(t.TemplPattern, name); !ok {
				continue
			}
			skip := false
			for _, e := range t.Except {
				if ok, _ := filepath.Match(e, name); ok {
					skip = true
				}
			}
			if skip {
				continue
			}
			c := byKey[fk]
			if c != nil && c.Flags["notemplate"] != "" {
				continue
			}
			if c == nil {
				c = &Contract{PkgDir: t.PkgDir, Key: fk, Loops: map[int]*LoopContract{}, Flags: map[string]string{}, File: t.File, Line: t.Line, FromTemplate: true}
				out = append(out, c)
				byKey[fk] = c
			}
			// template clauses come first, labelled with a t- prefix
			pre := func(cs []Clause) []Clause {
				var r []Clause
				for _, cl := range cs {
					r = append(r, Clause{Label: "t-" + cl.Label, Text: cl.Text})
				}
				return r
			}
			c.Requires = append(pre(t.Requires), c.Requires...)
			c.Ensures = append(pre(t.Ensures), c.Ensures...)
			if t.HasMod && !c.HasMod {
				c.HasMod = true
				c.Modifies = t.Modifies
			}
			for _, sv := range t.Serves {
				if !c.ServesProp(sv) || len(c.Serves) == 0 {
					c.Serves = append(c.Serves, sv)
				}
			}
			for k, v := range t.Flags {
				if _, ok := c.Flags[k]; !ok {
					c.Flags[k] = v
				}
			}
			c.AssumePre = append(c.AssumePre, t.AssumePre...)
			c.AssumeUnreach = append(c.AssumeUnreach, t.AssumeUnreach...)
			c.Assumes = append(pre(t.Assumes), c.Assumes...)
			c.AssumedEns = append(pre(t.AssumedEns), c.AssumedEns...)
			c.GhostSets = append(c.GhostSets, t.GhostSets...)
			c.Lemmas = append(c.Lemmas, t.Lemmas...)
			c.DynPreserves = append(c.DynPreserves, t.DynPreserves...)
			c.LoopInv = append(pre(t.LoopInv), c.LoopInv...)
			if len(c.LoopDec) == 0 {
				c.LoopDec = t.LoopDec
			}
			if len(c.Decreases) == 0 {
				c.Decreases = t.Decreases
			}
		}
	}
	return out
}

// NamedLoop: a loop contract attached to the loop whose header contains Frag.
type NamedLoop struct {
	Frag string
	LC   *LoopContract
	done bool
}

// mentionsAtCall: some assertion of the contract uses atcall(e).
func (c *Contract) mentionsAtCall() bool {
	if c == nil {
		return false
	}
	for _, a := range c.Asserts {
		if strings.Contains(a.Text, "atcall(") {
			return true
		}
	}
	return false
}
