import difflib, os
def mutant(mid, prop, expect, rel, old, new, count=1):
    src = open(os.path.join('/repo', rel)).read()
    assert src.count(old) >= 1, f"{mid}: old text not found in {rel}"
    mut = src.replace(old, new, count)
    diff = ''.join(difflib.unified_diff(src.splitlines(True), mut.splitlines(True), 'a/'+rel, 'b/'+rel))
    open(f'/verif/selftest/mutants/{mid}.diff','w').write(f"# property: {prop}\n# expect: {expect}\n" + diff)
