#!/usr/bin/env python3
"""Runs every stored seeded change against the check of its property (applies it to /repo, runs the quick check, undoes it)
and writes /verif/seeded/RESULTS.md."""
import os, json, subprocess, sys
rows=[]
BASE={}
only = sys.argv[1:]
# the changes are applied to a scratch worktree of /repo's HEAD, so /repo itself stays untouched
WT='/var/tmp/seed-wt'
subprocess.run(['git','-C','/repo','worktree','remove','--force',WT],capture_output=True)
subprocess.run(['git','-C','/repo','worktree','add','--detach',WT,'HEAD'],check=True,capture_output=True)
for sid in sorted(os.listdir('/verif/seeded')):
    d=f'/verif/seeded/{sid}'
    if not os.path.isdir(d): continue
    if only and not any(o in sid for o in only): continue
    meta=json.load(open(f'{d}/meta.json'))
    prop=meta['property']
    # lean mode (no replay, no slow fallbacks); obligations that fail in lean mode on the unchanged tree do not count
    if prop not in BASE:
        rb=subprocess.run(['/verif/bin/hvc','check','-root',WT,'-property',prop,'-noevidence'],capture_output=True,text=True,env=dict(os.environ,HVC_REPLAYDIR='/var/tmp/hvc-seed-replay',HVC_LEAN='1',HVC_NOREPLAY='1'))
        BASE[prop]={l.split('obligation=')[1].split(' reason=')[0] for l in rb.stdout.splitlines() if l.startswith('VIOLATION') and 'obligation=' in l}
    if subprocess.run(['git','-C',WT,'apply',f'{d}/patch.diff']).returncode != 0:
        rows.append((sid,prop,'PATCH-DOES-NOT-APPLY',False,[],meta['summary'][:110])); print(rows[-1][:4]); continue
    try:
        r=subprocess.run(['/verif/bin/hvc','check','-root',WT,'-property',prop,'-noevidence'],capture_output=True,text=True,env=dict(os.environ,HVC_REPLAYDIR='/var/tmp/hvc-seed-replay',HVC_LEAN='1',HVC_NOREPLAY='1'))
    finally:
        subprocess.run(['git','-C',WT,'checkout','--','.'],check=True)
    viol=[l for l in r.stdout.splitlines() if l.startswith('VIOLATION') and not ('obligation=' in l and l.split('obligation=')[1].split(' reason=')[0] in BASE[prop])]
    obl=sorted({l.split('obligation=')[1].split(' reason=')[0] for l in viol if 'obligation=' in l})
    confirmed=any('no-failing-input-found' not in l for l in viol)
    rows.append((sid,prop,'caught' if viol else 'MISSED',confirmed,obl[:3],meta['summary'][:110]))
    meta['check_result']={'caught':bool(viol),'replay_confirmed_on_real_code':confirmed,'failed_obligations':obl[:6]}
    json.dump(meta,open(f'{d}/meta.json','w'),indent=1)
    print(rows[-1][:4])
subprocess.run('rm -rf /var/tmp/hvc-seed-replay',shell=True)
subprocess.run(['git','-C','/repo','worktree','remove','--force',WT],capture_output=True)
if not only:
    with open('/verif/seeded/RESULTS.md','w') as f:
        f.write('# Seeded changes (independently written property-breaking edits) vs. the checks\n\n| seed | property | result | replayed on real code | failed obligations (first 3) | change |\n|---|---|---|---|---|---|\n')
        for r in rows: f.write(f'| {r[0]} | {r[1]} | {r[2]} | {"yes" if r[3] else "no"} | {"; ".join(r[4])} | {r[5]} |\n')
