#!/usr/bin/env python3
"""confirm_seed.py <seed-dir> <id>: confirm a seeded change in a scratch worktree of /repo HEAD
(builds, baseline suite passes, demo fails with the change and passes without), then store it as /verif/seeded/<id>/."""
import sys, os, json, subprocess, shutil, glob
seed, sid = sys.argv[1], sys.argv[2]
env = dict(os.environ, GOFLAGS='-mod=mod', GOPROXY='off', GOSUMDB='off', GOTOOLCHAIN='local')
wt = f'/tmp/confirm-{sid}'
def sh(cmd, cwd=None, timeout=600):
    r = subprocess.run(cmd, shell=True, cwd=cwd, env=env, capture_output=True, text=True, timeout=timeout)
    return r.returncode, (r.stdout + r.stderr)
sh(f'git -C /repo worktree remove --force {wt}')
rc, out = sh(f'git -C /repo worktree add -q --detach {wt} HEAD'); assert rc == 0, out
meta = json.load(open(f'{seed}/meta.json'))
demo_dir = meta.get('demo_dir', 'homescript')
res = {}
try:
    rc, out = sh(f'git apply {seed}/patch.diff', cwd=wt); res['patch_applies'] = rc == 0
    assert rc == 0, out
    rc, out = sh('go build ./...', cwd=wt); res['builds'] = rc == 0
    rc, out = sh('go test -vet=off -count=1 ./...', cwd=wt); res['suite_passes_with_change'] = rc == 0
    demo = [f for f in os.listdir(seed) if f.endswith('_test.go')][0]
    shutil.copy(f'{seed}/{demo}', f'{wt}/{demo_dir}/zz_seed_demo_test.go')
    rc, out = sh(f'go test -vet=off -count=1 -timeout 120s -run . ./{demo_dir}/', cwd=wt); res['demo_fails_with_change'] = rc != 0
    sh('git checkout -- .', cwd=wt)
    rc, out = sh(f'go test -vet=off -count=1 -timeout 120s -run . ./{demo_dir}/', cwd=wt); res['demo_passes_without_change'] = rc == 0
    if rc != 0: res['demo_output_without'] = out[-800:]
finally:
    sh(f'git -C /repo worktree remove --force {wt}')
ok = all(res.get(k) for k in ['patch_applies','builds','suite_passes_with_change','demo_fails_with_change','demo_passes_without_change'])
print(sid, 'CONFIRMED' if ok else 'NOT CONFIRMED', res)
if ok:
    d = f'/verif/seeded/{sid}'
    os.makedirs(d, exist_ok=True)
    shutil.copy(f'{seed}/patch.diff', d)
    shutil.copy(f'{seed}/{demo}', f'{d}/demo_test.go')
    meta['confirmed'] = res
    meta['what_was_run'] = f'scratch worktree of /repo HEAD: git apply patch.diff; go build ./...; go test -vet=off -count=1 ./... (all ok); demo copied to {demo_dir}/ and run with the change (fails) and without (passes)'
    json.dump(meta, open(f'{d}/meta.json', 'w'), indent=1)
