#!/usr/bin/env python3
"""Rebuilds /verif/seeded/RESULTS.md from the check_result recorded in every seed's meta.json (written by run_seeds.py)."""
import os, json
rows=[]
for sid in sorted(os.listdir('/verif/seeded')):
    d=f'/verif/seeded/{sid}'
    if not os.path.isdir(d): continue
    m=json.load(open(f'{d}/meta.json'))
    cr=m.get('check_result',{})
    rows.append((sid,m['property'],'caught' if cr.get('caught') else 'MISSED',cr.get('failed_obligations',[])[:3],m['summary'][:110]))
with open('/verif/seeded/RESULTS.md','w') as f:
    f.write('# Seeded changes (independently written property-breaking edits) vs. the checks\n\n')
    f.write(f'{sum(1 for r in rows if r[2]=="caught")} of {len(rows)} caught (quick tier, lean mode: no replay, fail-fast).\n\n| seed | property | result | failed obligations (first 3) | change |\n|---|---|---|---|---|\n')
    for r in rows: f.write(f'| {r[0]} | {r[1]} | {r[2]} | {"; ".join(r[3])} | {r[4]} |\n')
print(sum(1 for r in rows if r[2]=="caught"), len(rows))
