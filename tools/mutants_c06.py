from mutlib import mutant
L='homescript/lexer/lexer.go'
mutant('c06-less-order','C06','makeLess#post',L,'''			if self.nextChar != nil && *self.nextChar == '=' {
				tokenKind = ShiftLeftAssign
				tokenValue = "<<="
				self.advance()
			}
''','')
mutant('c06-kw-loop','C06','makeName#post:keyword',L,'case "loop":','case "lop":')
mutant('c06-advance-col','C06','Advance#post','homescript/errors/error.go','self.Column = 1','self.Column = 0')
mutant('c06-string-span','C06','makeString#post:span-start',L,'''			Start:    startLocation,
			End:      self.location,
			Filename: self.filename,
		},
	)

	// skip closing quote''','''			Start:    self.location,
			End:      self.location,
			Filename: self.filename,
		},
	)

	// skip closing quote''')
mutant('c06-escape-len','C06','makeEscapeSequence#post',L,'char, err = self.escapePart("", startLocation, 16, 4)','char, err = self.escapePart("", startLocation, 16, 3)')
mutant('c06-escape-n','C06','makeEscapeSequence#post:simple',L,"		char = '\\n'\n		self.advance()","		char = '\\r'\n		self.advance()")
mutant('c06-tab','C06','NextToken#post',L,"case ' ', '\\n', '\\t', '\\r':","case ' ', '\\n', '\\t' | '\\r':")
mutant('c06-or-advance','C06','makeOr#post',L,'''func (self *Lexer) makeOr() Token {
	startLocation := self.location
''','''func (self *Lexer) makeOr() Token {
	startLocation := self.location
	self.advance()
''')
mutant('c06-number-sep','C06','makeNumber#',L,'''	for self.currentChar != nil && (util.IsDigit(*self.currentChar) || *self.currentChar == '_') {
		value += string(*self.currentChar)
		lastEnd = self.location
		self.advance()
	}

	if''','''	for self.currentChar != nil && util.IsDigit(*self.currentChar) {
		value += string(*self.currentChar)
		lastEnd = self.location
		self.advance()
	}

	if''')
mutant('c06-eof-kind','C06','NextToken#post:eof',L,'''	return newToken(
		EOF,
		"EOF",''','''	return newToken(
		Unknown,
		"EOF",''')
mutant('c06-dispatch-percent','C06','NextToken#post:operator',L,'			return self.makeReminder(), nil','			return self.makeDiv(), nil')
mutant('c06-comment-line','C06','skipLineComment#',L,'''	if self.currentChar != nil {
		self.advance()
	}
}

func (self *Lexer) skipBlockComment() {''','''	if self.currentChar != nil {
		self.advance()
		self.advance()
	}
}

func (self *Lexer) skipBlockComment() {''')
mutant('c06-isletter','C06','IsLetter#post','homescript/lexer/util/util.go','RuneRange{min: 97, max: 122}, // lowercase letters','RuneRange{min: 97, max: 121}, // lowercase letters')
mutant('c06-newlexer','C06','NewLexer#post',L,'''		currentChar = &program[0]
		nextChar = &program[1]''','''		currentChar = &program[0]
		nextChar = &program[0]''')
mutant('c06-xor-filename','C06','makeBitXor#post:filename',L,'''			End:      self.location,
			Filename: self.filename,
		},
	)
	self.advance()
	return token
}

func (self *Lexer) makeNot() Token {''','''			End:      self.location,
		},
	)
	self.advance()
	return token
}

func (self *Lexer) makeNot() Token {''')
mutant('c06-tilde-value','C06','makeTildeArrow#post:kind',L,'		"~>",','		"->",')
mutant('c06-block-comment','C06','skipBlockComment#post',L,'''		if self.currentChar == nil {
			break
		}
		if *self.currentChar == '*' && self.nextChar != nil && *self.nextChar == '/' {''','''		if self.currentChar == nil || self.nextChar == nil {
			break
		}
		if *self.currentChar == '*' && self.nextChar != nil && *self.nextChar == '/' {''')
mutant('c06-star-assign','C06','makeStar#post',L,'''			MultiplyAssign,
			"*=",''','''			MultiplyAssign,
			"*",''')
mutant('c06-name-digit','C06','makeName#',L,'(util.IsDigit(*self.currentChar) || util.IsLetter(*self.currentChar))','(util.IsLetter(*self.currentChar))')
