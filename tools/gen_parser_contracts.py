#!/usr/bin/env python3
"""Generates the node-span contracts (C08) for the parser functions from the way each function builds its span
(startLoc/start .Until(PreviousToken.Span.End)), and writes /repo/homescript/parser/zz_contracts_verif.go =
parser_head.go.txt + generated blocks. Existing hand-written blocks for the same function get the clauses appended."""
import re,glob
head=open('/verif/tools/parser_head.go.txt').read()
gen={}
for f in sorted(glob.glob('/repo/homescript/parser/*.go')):
    if 'zz_' in f or '_test' in f: continue
    src=open(f).read()
    for m in re.finditer(r'^func \(self \*?Parser\) (\w+)\(([^)]*)\) (\([^)]*\)|[\w.*]+)? ?\{\n(.*?)^\}', src, re.S|re.M):
        name,params,res,body=m.groups()
        if not res or not res.startswith('('): continue
        first=body.strip().split('\n')[0].strip()
        r0=res.strip('()').split(',')[0].strip()
        rname='result'
        if ' ' in r0: rname,r0=r0.split(' ')[0],r0.split(' ')[1]
        if not r0.startswith('ast.') or r0 in ('ast.Expression','ast.HmsType','ast.Statement','ast.EitherStatementOrExpression'): continue
        untils=re.findall(r'(\w+):\s+([\w.]+)\.Until\(([^,]+), self\.Filename\)', body)
        if not untils: continue
        fld,start,end=untils[-1]
        if end!='self.PreviousToken.Span.End' or fld not in ('Range','Span'): continue
        cl=[]
        if start in ('startLoc','start') and re.match(r'(startLoc|start) := self\.CurrentToken\.Span\.Start', first):
            cl.append(f"    ensures @span-start lasterr == nil ==> {rname}.{fld}.Start == old(self.CurrentToken.Span.Start)")
        elif start=='start' and 'start errors.Location' in params:
            cl.append(f"    requires start.Index <= self.CurrentToken.Span.Start.Index")
            cl.append(f"    ensures @span-start lasterr == nil ==> {rname}.{fld}.Start == start")
        else:
            continue
        cl.append(f"    ensures @span-end lasterr == nil ==> {rname}.{fld}.End == self.PreviousToken.Span.End && {rname}.{fld}.Filename == self.Filename")
        cl.append(f"    ensures @span-ordered lasterr == nil && old(self.CurrentToken.Kind) != lexer.EOF ==> {rname}.{fld}.Start.Index <= {rname}.{fld}.End.Index")
        gen[name]=cl
out=head
for name,cl in gen.items():
    m=re.search(r'/\*@ func \(self \*?Parser\) '+name+r'\n(.*?)@\*/', out, re.S)
    if m:
        body=m.group(1)
        if 'serves' in body:
            body=re.sub(r'serves ([^\n]*)', lambda mm: 'serves '+mm.group(1)+('' if 'C08' in mm.group(1) else ', C08'), body, count=1)
        else:
            body='    serves C08\n'+body
        out=out[:m.start(1)]+body+"\n".join(cl)+"\n"+out[m.end(1):]
    else:
        out+=f"\n/*@ func (self *Parser) {name}\n    serves C08\n"+"\n".join(cl)+"\n@*/\n"
open('/repo/homescript/parser/zz_contracts_verif.go','w').write(out)
print(len(gen),"span contracts:",sorted(gen))
