from mutlib import mutant
T='homescript/lexer/token.go'
E='homescript/parser/expression.go'
A='homescript/parser/ast/expression.go'
mutant('c07-prec-swap','C07','lemmaPrecChain#post',T,'''	case Plus, Minus:
		return 19, 20
	case Multiply, Divide, Modulo:
		return 21, 22''','''	case Plus, Minus:
		return 21, 22
	case Multiply, Divide, Modulo:
		return 19, 20''')
mutant('c07-power-left','C07','lemmaPrecChain#post:right-assoc',T,'		return 26, 25','		return 25, 26')
mutant('c07-minus-right','C07','lemmaPrecChain#post',T,'''	case Plus, Minus:
		return 19, 20''','''	case Plus:
		return 19, 20
	case Minus:
		return 20, 19''')
mutant('c07-infix-leftpower','C07','infixExpression#post:rhs',E,'''	op := ast.TokenAsInfixOperator(self.CurrentToken.Kind)
	_, rhsPrec := self.CurrentToken.Kind.Prec()''','''	op := ast.TokenAsInfixOperator(self.CurrentToken.Kind)
	rhsPrec, _ := self.CurrentToken.Kind.Prec()''')
mutant('c07-prefix-zero','C07','prefixExpression#post:operand',E,'baseTemp, _, err := self.expression(29)','baseTemp, _, err := self.expression(0)')
mutant('c07-loop-geq','C07','expression#',E,'for left, _ := self.CurrentToken.Kind.Prec(); left > prec; left, _ = self.CurrentToken.Kind.Prec() {','for left, _ := self.CurrentToken.Kind.Prec(); left >= prec; left, _ = self.CurrentToken.Kind.Prec() {')
mutant('c07-infix-table','C07','TokenAsInfixOperator#post',A,'''	case lexer.ShiftRight:
		return ShiftRightInfixOperator''','''	case lexer.ShiftRight:
		return ShiftLeftInfixOperator''')
mutant('c07-infix-lhs','C07','infixExpression#post:lhs',E,'''	return ast.InfixExpression{
		Lhs:      lhs,
		Rhs:      rhs,''','''	return ast.InfixExpression{
		Lhs:      rhs,
		Rhs:      lhs,''')
mutant('c07-bitand-or','C07','lemmaPrecChain#post',T,'''	case BitOr:
		return 7, 8
	case BitXor:
		return 9, 10
	case BitAnd:
		return 11, 12''','''	case BitAnd:
		return 7, 8
	case BitXor:
		return 9, 10
	case BitOr:
		return 11, 12''')
mutant('c07-assign-op','C07','TokenAsAssignOperator#post',A,'''	case lexer.MinusAssign:
		return MinusAssignOperatorKind''','''	case lexer.MinusAssign:
		return PlusAssignOperatorKind''')
# C05
mutant('c05-importident','C05','importIdent#',  'homescript/parser/import.go','''			if err := self.next(); err != nil {
				return ast.SpannedIdent{}, err
			}
			fallthrough
		case lexer.Identifier:
			if err := self.expect(lexer.Identifier); err != nil {
				return ast.SpannedIdent{}, err
			}''','''			self.next()
			fallthrough
		case lexer.Identifier:
			self.expect(lexer.Identifier)''')
mutant('c05-list-loop','C05','listLiteral#',E,'''func (self *Parser) listLiteral() (ast.ListLiteralExpression, *errors.Error) {''','''func (self *Parser) listLiteral() (ast.ListLiteralExpression, *errors.Error) {
	for self.CurrentToken.Kind == lexer.Comma {
	}''')
mutant('c05-escape-loop','C05','escapePart#','homescript/lexer/lexer.go','''		esc += string(*self.currentChar)
		self.advance()
	}''','''		esc += string(*self.currentChar)
		if *self.currentChar == '0' {
			i--
		}
		self.advance()
	}''')
mutant('c05-block-continue','C05','block#',E,'''		item, err := self.statemtent()
		if err != nil {
			return ast.Block{}, err
		}
''','''		item, err := self.statemtent()
		if err != nil {
			continue
		}
''')
mutant('c05-expect-noadvance','C05','expect#','homescript/parser/utils.go','''	if err := self.next(); err != nil {
		return err
	}

	return nil
}

func (self *Parser) expectRecoverable''','''	if expected != lexer.Comma {
		if err := self.next(); err != nil {
			return err
		}
	}

	return nil
}

func (self *Parser) expectRecoverable''')
mutant('c05-prefix-plus','C05','expression#pre:Parser.prefixExpression',E,'case lexer.Not, lexer.Minus, lexer.QuestionMark:\n\t\tprefixExpr','case lexer.Not, lexer.Minus, lexer.QuestionMark, lexer.Colon:\n\t\tprefixExpr')
