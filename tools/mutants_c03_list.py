import sys; sys.path.insert(0,'/verif/tools')
from mutlib import mutant
mutant('c03-list-inner-unchecked','C03','TypeCheck',"homescript/analyzer/typing.go",'''		if err := self.TypeCheck(lhsType.Inner, rhsType.Inner, options); err != nil {
			return err
		}
	case ast.AnyObjectTypeKind:''','''	case ast.AnyObjectTypeKind:''')
mutant('c03-list-inner-same-kind-shortcut','C03','TypeCheck',"homescript/analyzer/typing.go",'''		// check inner type
		if err := self.TypeCheck(lhsType.Inner, rhsType.Inner, options); err != nil {''','''		// check inner type
		if lhsType.Inner.Kind() == rhsType.Inner.Kind() {
			return nil
		}
		if err := self.TypeCheck(lhsType.Inner, rhsType.Inner, options); err != nil {''')
