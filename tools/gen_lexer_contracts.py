#!/usr/bin/env python3
"""Generates /repo/homescript/lexer/zz_contracts_verif.go (operator table part).
The table below is transcribed from grammar.ebnf / lexer/token.go comments: lexeme -> TokenKind."""
LEX = {
 '#':'HashTag','?':'QuestionMark','@':'AtSymbol','$':'DollarSymbol',';':'Semicolon',',':'Comma',':':'Colon',
 '.':'Dot','..':'DoubleDot','->':'Arrow','=>':'FatArrow','~>':'TildeArrow',
 '(':'LParen',')':'RParen','{':'LCurly','}':'RCurly','[':'LBracket',']':'RBracket',
 '||':'Or','&&':'And','==':'Equal','!=':'NotEqual','<':'LessThan','<=':'LessThanEqual','>':'GreaterThan','>=':'GreaterThanEqual','!':'Not',
 '+':'Plus','-':'Minus','*':'Multiply','/':'Divide','%':'Modulo','**':'Power','<<':'ShiftLeft','>>':'ShiftRight','|':'BitOr','&':'BitAnd','^':'BitXor',
 '=':'Assign','+=':'PlusAssign','-=':'MinusAssign','*=':'MultiplyAssign','/=':'DivideAssign','**=':'PowerAssign','%=':'ModuloAssign',
 '<<=':'ShiftLeftAssign','>>=':'ShiftRightAssign','|=':'BitOrAssign','&=':'BitAndAssign','^=':'BitXorAssign',
}
def q(c): return "'\\''" if c=="'" else "'"+c+"'"
by_first={}
for lx,k in LEX.items(): by_first.setdefault(lx[0],[]).append((lx,k))
def gen(fn, ret, default, pick):
    out=[f"func {fn}(p []rune, i int) {ret} {{", "\tswitch at(p, i) {"]
    for c in sorted(by_first):
        out.append(f"\tcase {q(c)}:")
        for lx,k in sorted(by_first[c], key=lambda x:-len(x[0])):
            conds=[f"at(p, i+{j}) == {q(ch)}" for j,ch in enumerate(lx) if j>0]
            if conds:
                out.append(f"\t\tif {' && '.join(conds)} {{\n\t\t\treturn {pick(lx,k)}\n\t\t}}")
            else:
                out.append(f"\t\treturn {pick(lx,k)}")
        if not any(len(lx)==1 for lx,_ in by_first[c]):
            out.append(f"\t\treturn {default}")
    out += ["\t}", f"\treturn {default}", "}"]
    return "\n".join(out)
print(gen("opLen","int","0",lambda lx,k:str(len(lx))))
print()
print(gen("opKind","TokenKind","Unknown",lambda lx,k:k))
print()
print("func opText(k TokenKind) string {\n\tswitch k {")
for lx,k in LEX.items():
    print(f"\tcase {k}:\n\t\treturn \"{lx}\"")
print("\t}\n\treturn \"\"\n}")
print()
print("// VOpText: the text of an operator or punctuation token (for the printers' contracts, C19).")
print("func VOpText(k TokenKind) string { return opText(k) }")
