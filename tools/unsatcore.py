#!/usr/bin/env python3
"""Name the top-level assertions of a dumped query and print the unsat core."""
import sys, subprocess, re
src = open(sys.argv[1]).read()
out = ["(set-option :produce-unsat-cores true)"]
depth = 0; cur = ""; n = 0; names = {}
i = 0
# split into top-level s-expressions
exprs = []
buf = ""
instr = False
for ch in src:
    buf += ch
    if ch == '"': instr = not instr
    if instr: continue
    if ch == '(': depth += 1
    elif ch == ')':
        depth -= 1
        if depth == 0:
            exprs.append(buf.strip()); buf = ""
for e in exprs:
    if e.startswith("(assert "):
        body = e[len("(assert "):-1]
        n += 1
        names["a%d" % n] = body
        out.append("(assert (! %s :named a%d))" % (body, n))
    elif e.startswith("(check-sat") or e.startswith("(get-model") or e.startswith("(get-"):
        continue
    else:
        out.append(e)
out.append("(check-sat)\n(get-unsat-core)")
open("/var/tmp/core.smt2", "w").write("\n".join(out))
r = subprocess.run(["z3-new", "-T:60", "/var/tmp/core.smt2"], capture_output=True, text=True).stdout
print(r.splitlines()[0])
for m in re.findall(r"a\d+", r):
    print(m, names[m][:600])
