import sys; sys.path.insert(0,'/verif/tools')
from mutlib import mutant
CS='homescript/compiler/statement.go'
CU='homescript/compiler/util.go'
CE='homescript/compiler/expression.go'
CF='homescript/compiler/function.go'
# handler discipline: jumps out of try blocks remove their catch-labels
mutant('c11-break-keeps-handler','C11','compileStmt#assert:break-leaves-its-try-blocks',CS,'''		self.leaveTryBlocks(self.currLoop().tryDepth, node.Span())
		self.insert(newOneStringInstruction(Opcode_Jump, self.currLoop().labelBreak), node.Span())''','''		self.insert(newOneStringInstruction(Opcode_Jump, self.currLoop().labelBreak), node.Span())''')
mutant('c11-continue-keeps-handler','C11','compileStmt#assert:continue-leaves-its-try-blocks',CS,'''		self.leaveTryBlocks(self.currLoop().tryDepth, node.Span())
		self.insert(newOneStringInstruction(Opcode_Jump, self.currLoop().labelContinue), node.Span())''','''		self.insert(newOneStringInstruction(Opcode_Jump, self.currLoop().labelContinue), node.Span())''')
mutant('c11-return-keeps-handler','C11','compileStmt#assert:return-leaves-all-try-blocks',CS,'''		self.leaveTryBlocks(0, node.Span())
''','')
mutant('c11-break-pops-outer-handlers','C11','compileStmt#assert:break-leaves-its-try-blocks',CS,'''		self.leaveTryBlocks(self.currLoop().tryDepth, node.Span())
		self.insert(newOneStringInstruction(Opcode_Jump, self.currLoop().labelBreak), node.Span())''','''		self.leaveTryBlocks(0, node.Span())
		self.insert(newOneStringInstruction(Opcode_Jump, self.currLoop().labelBreak), node.Span())''')
mutant('c11-leave-one-too-many','C11','leaveTryBlocks',CU,'for depth := outerDepth; depth < self.tryDepth; depth++ {','for depth := outerDepth; depth <= self.tryDepth; depth++ {')
mutant('c11-leave-one-too-few','C11','leaveTryBlocks',CU,'for depth := outerDepth; depth < self.tryDepth; depth++ {','for depth := outerDepth + 1; depth < self.tryDepth; depth++ {')
mutant('c11-loop-forgets-open-handlers','C11','pushLoop',CU,'	l.tryDepth = self.tryDepth\n','')
mutant('c11-try-not-counted','C11','compileExpr',CE,'		self.tryDepth++\n		self.compileBlock(node.TryBlock, true)\n		self.tryDepth--\n','		self.compileBlock(node.TryBlock, true)\n')
mutant('c11-try-count-leaks','C11','compileExpr',CE,'		self.compileBlock(node.TryBlock, true)\n		self.tryDepth--\n','		self.compileBlock(node.TryBlock, true)\n')
mutant('c11-lambda-inherits-handlers','C11','compileFn',CF,'	self.tryDepth = 0\n','')
mutant('c01-catch-ident-leaks','C01','compileExpr',CE,'''		self.insert(newOneStringInstruction(Opcode_Label, exceptionLabel), node.Range)
		self.pushScope()
		defer self.popScope()
		// The error identifier is only bound inside of the catch block.
		mangledExceptionName := self.mangleVar(node.CatchIdent.Ident())
''','''		mangledExceptionName := self.mangleVar(node.CatchIdent.Ident())
		self.insert(newOneStringInstruction(Opcode_Label, exceptionLabel), node.Range)
		self.pushScope()
		defer self.popScope()
''')
mutant('c01-match-arm-scope-leak','C01','compileExpr',CE,'''		self.compileBlock(node.CatchBlock, false)
''','''		self.compileBlock(node.CatchBlock, false)
		self.pushScope()
''')
mutant('c11-call-arg-loop-leak','C11','compileCallExpr',CE,'''		if base.Ident.Ident() == "throw" {
			self.insert(newPrimitiveInstruction(Opcode_Throw), node.Range)
			return
		}''','''		if base.Ident.Ident() == "throw" {
			self.insert(newPrimitiveInstruction(Opcode_Throw), node.Range)
			self.tryDepth = 0
			return
		}''')
mutant('c01-singleton-loaded-twice','C01','compileFn',CF,'''		self.insert(newOneStringInstruction(Opcode_GetGlobImm, name), node.Range)
''','''		self.insert(newOneStringInstruction(Opcode_GetGlobImm, name), node.Range)
		self.insert(newOneStringInstruction(Opcode_GetGlobImm, name), node.Range)
''')
mutant('c01-param-not-popped','C01','compileFn',CF,'''		name := self.mangleVar(param.Ident.Ident())
		self.insert(newOneStringInstruction(Opcode_SetVarImm, name), node.Range)
''','''		name := self.mangleVar(param.Ident.Ident())
		if len(name) < 200 {
			self.insert(newOneStringInstruction(Opcode_SetVarImm, name), node.Range)
		}
''')
