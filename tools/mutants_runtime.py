from mutlib import mutant
X='homescript/runtime/execute.go'
C='homescript/runtime/core.go'
mutant('c02-div-zero','C02','runInstruction && #div',X,'''			if rInt.Inner == 0 {
				return self.fatalErr(
					"Division by zero error: this is operation is illegal",
					value.Vm_ValueErrorKind,
					self.parent.SourceMap(*self.callFrame()),
				)
			}
			self.push(value.NewValueInt(lInt.Inner / rInt.Inner))''','''			self.push(value.NewValueInt(lInt.Inner / rInt.Inner))''')
mutant('c02-drop-twice','C02','runInstruction',X,'''	case compiler.Opcode_Drop:
		self.pop()''','''	case compiler.Opcode_Drop:
		self.pop()
		self.pop()''')
mutant('c01-sub-swapped','C01','runInstruction && #post:binary',X,'self.push(value.NewValueInt(lInt.Inner - rInt.Inner))','self.push(value.NewValueInt(rInt.Inner - lInt.Inner))')
mutant('c01-lt-le','C01','runInstruction && #post:binary',X,'self.push(value.NewValueBool(lFloat.Inner < rFloat.Inner))','self.push(value.NewValueBool(lFloat.Inner <= rFloat.Inner))')
mutant('c01-jump-inverted','C01','runInstruction && #post:jump-if',X,'		if !v.(value.ValueBool).Inner {','		if v.(value.ValueBool).Inner {')
mutant('c01-xor-bool','C01','runInstruction && #post:binary',X,'self.push(value.NewValueBool(lBool.Inner != rBool.Inner))','self.push(value.NewValueBool(lBool.Inner == rBool.Inner))')
mutant('c01-getvar-sign','C01','runInstruction',C,'	return int(core.MemoryPointer - rel)','	return int(core.MemoryPointer + rel)')
mutant('c01-shr-shl','C01','runInstruction && #post:binary',X,'self.push(value.NewValueInt(lInt.Inner >> rInt.Inner))','self.push(value.NewValueInt(lInt.Inner << rInt.Inner))')
mutant('c01-call-ip','C01','runInstruction && #post:call',X,'''		i := instruction.(compiler.OneStringInstruction)
		self.callFrame().InstructionPointer++
		self.pushCallStack(i.Value)''','''		i := instruction.(compiler.OneStringInstruction)
		self.pushCallStack(i.Value)
		self.callFrame().InstructionPointer++''')
mutant('c09-stack-limit','C09','Run#inv-init:loop2.quantum-within-limits',C,'		if len(self.Stack) > int(self.Limits.StackMaxSize) {','		if len(self.Stack) > 2*int(self.Limits.StackMaxSize) {')
mutant('c09-callstack-limit','C09','Run#inv-init:loop2.quantum-within-limits',C,'		if len(self.CallStack) > int(self.Limits.CallStackMaxSize) {','		if len(self.CallStack) > int(self.Limits.CallStackMaxSize)+1 {')
mutant('c09-oom','C09','runInstruction && #post:out-of-memory',X,'		if int(self.MemoryPointer) >= int(self.Limits.MaxMemorySize) {','		if int(self.MemoryPointer) > int(self.Limits.MaxMemorySize) {')
mutant('c09-oom-kind','C09','runInstruction && #post:out-of-memory-kind',X,'				value.Vm_OutOfMemoryErrorKind,','				value.Vm_StackOverFlowErrorKind,')
mutant('c10-poll-outside','C10','Run#',C,'''outer:
	for len(self.CallStack) > 0 {
		// Check cancelation
		if i := self.checkCancelation(); i != nil {
			self.SignalHandle <- i
			return
		}
''','''	if i := self.checkCancelation(); i != nil {
		self.SignalHandle <- i
		return
	}
outer:
	for len(self.CallStack) > 0 {
''')
mutant('c10-poll-ignored','C10','Run#',C,'''		if i := self.checkCancelation(); i != nil {
			self.SignalHandle <- i
			return
		}

		// Check for stack overflow''','''		if i := self.checkCancelation(); i != nil {
			self.SignalHandle <- i
		}

		// Check for stack overflow''')
mutant('c11-try-frame','C11','Run#',C,'		frameIndex:    uint(len(core.CallStack) - 1),','		frameIndex:    uint(len(core.CallStack)),')
mutant('c11-poptry-one','C11','#',C,'''	core.ExceptionCatchLabels = core.ExceptionCatchLabels[:len(core.ExceptionCatchLabels)-1]
	core.tryStates = core.tryStates[:len(core.tryStates)-1]''','''	core.ExceptionCatchLabels = core.ExceptionCatchLabels[:len(core.ExceptionCatchLabels)-1]''')
mutant('c11-settry-ip','C11','runInstruction && #post:try-push',X,'			InstructionPointer: uint(i.ValueInt),','			InstructionPointer: uint(i.ValueInt) + 1,')
mutant('c02-unwrap-none','C02','runInstruction && #post:unwrap-none',X,'''		if inner == nil {
			span := self.parent.SourceMap(*self.callFrame())
			return value.NewValueOptionUnwrapErr(span)
		}
''','')
