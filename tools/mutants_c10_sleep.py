import sys; sys.path.insert(0,'/verif/tools')
from mutlib import mutant
mutant('c10-sleep-long-nap','C10','TestingVmScopeAdditions',"homescript/testing_executor_vm.go",'					time.Sleep(time.Millisecond * 10)','					time.Sleep(time.Millisecond * 100)')
mutant('c10-sleep-poll-outside-loop','C10','TestingInterpreterScopeAdditions',"homescript/testing_executor.go",'''				for i := 0; i < int(durationSecs*1000); i += 10 {
					if i := checkCancelationTree(cancelCtx, span); i != nil {
						return nil, i
					}
					time.Sleep(time.Millisecond * 10)
				}''','''				if i := checkCancelationTree(cancelCtx, span); i != nil {
					return nil, i
				}
				for i := 0; i < int(durationSecs*1000); i += 10 {
					time.Sleep(time.Millisecond * 10)
				}''')
mutant('c04-interp-string-not-normalised','C04','NewValueString',"homescript/interpreter/value/valueString.go",'	normalized := norm.NFC.String(inner)\n	val := Value(ValueString{Inner: normalized, currIterIdx: &zero})','	normalized := norm.NFC.String(inner)\n	val := Value(ValueString{Inner: inner, currIterIdx: &zero})\n	_ = normalized')
