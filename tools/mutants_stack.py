import sys; sys.path.insert(0,'/verif/tools')
from mutlib import mutant
CE='homescript/compiler/expression.go'
CS='homescript/compiler/statement.go'
mutant('c02-no-value-not-replaced','C02','compileExpr',CE,'''	if !leavesValue(node) {
		self.insert(newValueInstruction(Opcode_Copy_Push, *value.NewValueNull()), node.Span())
	}
''','')
mutant('c09-statement-drop-by-type','C09','compileStmt',CS,'''		// Drop the value that the expression generates
		self.insert(newPrimitiveInstruction(Opcode_Drop), node.Range)''','''		if node.Expression.Type().Kind() != ast.NullTypeKind {
			self.insert(newPrimitiveInstruction(Opcode_Drop), node.Range)
		}''')
mutant('c09-match-default-keeps-control','C09','compileExprInner',CE,'''		self.insert(newOneStringInstruction(Opcode_Label, default_branch), node.Range)
		self.insert(newPrimitiveInstruction(Opcode_Drop), node.Range)
''','''		self.insert(newOneStringInstruction(Opcode_Label, default_branch), node.Range)
''')
mutant('c09-trigger-keeps-result','C09','compileStmt',CS,'''		// A statement leaves nothing on the stack: drop the result of the host call.
		self.insert(newPrimitiveInstruction(Opcode_Drop), node.Span())
''','')
mutant('c09-null-block-keeps-value','C09','compileBlock',CS,'''		if node.ResultType.Kind() == ast.NullTypeKind {
			self.insert(newPrimitiveInstruction(Opcode_Drop), node.Expression.Span())
		}
''','')
mutant('c01-return-null-keeps-value','C01','compileStmt',CS,'''			if node.ReturnValue.Type().Kind() == ast.NullTypeKind {
				self.insert(newPrimitiveInstruction(Opcode_Drop), node.Span())
			}
''','')
mutant('c01-assignment-claims-a-value','C01','leavesValue',CE,'''	case ast.AssignExpressionKind:
		return false
''','''	case ast.AssignExpressionKind:
		return true
''')
mutant('c02-call-args-popped-twice','C02','compileCallExpr',CE,'''			self.compileExpr(node.Base)
			self.insert(newValueInstruction(Opcode_Copy_Push, *value.NewValueInt(int64(len(node.Arguments.List)))), node.Span())
			self.insert(newPrimitiveInstruction(Opcode_Call_Val), node.Span())''','''			self.compileExpr(node.Base)
			self.insert(newPrimitiveInstruction(Opcode_Call_Val), node.Span())''')
