#!/usr/bin/env python3
"""Generates the C18 member-table contracts from one table (the oracle: what the language offers on each type)
into the marked sections of the zz_contracts_verif.go files of analyzer/ast, runtime/value and interpreter/value."""
import re, sys
# type kind -> (static type name, value type name, {member: (param kinds, result kind)})
# result/param kinds: int float bool str range list option null any anyobj elem (= the list's/option's element type)
T = {
 'Int':    ('IntType','ValueInt',{'to_range':([], 'range'), 'to_string':([], 'str')}),
 'Float':  ('FloatType','ValueFloat',{'is_int':([], 'bool'), 'round':([], 'int'), 'to_string':([], 'str'), 'trunc':([], 'int')}),
 'Bool':   ('BoolType','ValueBool',{'to_string':([], 'str')}),
 'String': ('StringType','ValueString',{'compare_lev':(['str'],'int'),'contains':(['str'],'bool'),'len':([], 'int'),'parse_bool':([], 'bool'),
            'parse_float':([], 'float'),'parse_int':([], 'int'),'parse_json':([], 'any'),'repeat':(['int'],'str'),'replace':(['str','str'],'str'),
            'split':(['str'],'list'),'starts_with':(['str'],'bool'),'substring':(['int'],'str'),'to_lower':([], 'str'),'to_upper':([], 'str')}),
 'Range':  ('RangeType','ValueRange',{'diff':([], 'int'),'end':None,'rev':([], 'range'),'start':None,'to_string':([], 'str')}),
 'List':   ('ListType','ValueList',{'concat':(['list'],'null'),'contains':(['elem'],'bool'),'insert':(['int','elem'],'null'),'join':(['str'],'str'),
            'last':([], 'option'),'len':([], 'int'),'pop':([], 'option'),'pop_front':([], 'option'),'push':(['elem'],'null'),'push_front':(['elem'],'null'),
            'remove':(['int'],'null'),'to_json':([], 'str'),'to_json_indent':([], 'str'),'to_string':([], 'str')}),
 'AnyObject': ('AnyObjectType','ValueAnyObject',{'get':(['str'],'option'),'get_type':(['str'],'str'),'keys':([], 'list'),'set':(['str','any'],'null'),
            'to_json':([], 'str'),'to_json_indent':([], 'str'),'to_string':([], 'str')}),
 'Object': ('ObjectType','ValueObject',{'keys':([], 'list'),'to_json':([], 'str'),'to_json_indent':([], 'str')}),
 'Option': ('OptionType','ValueOption',{'expect':(['str'],'elem'),'is_none':([], 'bool'),'is_some':([], 'bool'),'to_string':([], 'str'),'unwrap':([], 'elem'),'unwrap_or':(['elem'],'elem')}),
}
# members a type may offer conditionally (list.sort only for sortable element types)
OPTIONAL = {'List': ['sort']}
BEGIN='// BEGIN GENERATED members (tools/gen_member_contracts.py; edit the table there)\n'
END='// END GENERATED members\n'

def splice(path, text):
    s=open(path).read()
    if BEGIN in s:
        s=s[:s.index(BEGIN)]+s[s.index(END)+len(END):]
    s=s.rstrip('\n')+'\n\n'+BEGIN+text+END
    open(path,'w').write(s)

# ---- analyzer/ast
a=['\n// VMemberOf: the members the language offers on the values of a type (the\n// table every member map is checked against, C18).\nfunc VMemberOf(k TypeKind, name string) bool {\n\tswitch k {\n']
for kind,(st,vt,mem) in T.items():
    names=sorted(list(mem)+OPTIONAL.get(kind,[]))
    a.append(f'\tcase {kind}TypeKind:\n\t\treturn '+' || '.join(f'name == "{n}"' for n in names)+'\n')
a.append('\t}\n\treturn false\n}\n\n')
for kind,(st,vt,mem) in T.items():
    names=sorted(mem)
    arg = 'fieldSpan' if kind not in ('AnyObject','Option') else 'span'
    a.append(f'/*@ func (self {st}) Fields\n    serves C18\n    assume-safety\n')
    if kind!='Object':
        a.append(f'    ensures @offers-only-table-members forall k string in keys(result) :: VMemberOf({kind}TypeKind, k)\n')
    a.append('    ensures @offers-every-table-member '+' && '.join(f'haskey(result, "{n}")' for n in names)+'\n')
    if kind=='Object':
        a.append('    loop 1 invariant fresh(fields) && '+' && '.join(f'haskey(fields, "{n}")' for n in names)+'\n')
    if kind=='List':
        a.append('    requires self.Inner != nil\n')
        a.append('    ensures @sort-only-for-sortable-elements haskey(result, "sort") <==> (self.Inner.Kind() == IntTypeKind || self.Inner.Kind() == FloatTypeKind || self.Inner.Kind() == StringTypeKind)\n')
    a.append('@*/\n\n')
splice('/repo/homescript/analyzer/ast/zz_contracts_verif.go',''.join(a))

# ---- runtimes
for pkg in ['runtime/value','interpreter/value']:
    r=['\n// Every member the analyzer offers on a type exists on every value of that type.\n\n']
    for kind,(st,vt,mem) in T.items():
        names=sorted(list(mem)+OPTIONAL.get(kind,[]))
        inv = ('    loop 1 invariant fresh(fields) && '+' && '.join(f'haskey(fields, "{n}")' for n in names)+'\n    loop 1 invariant forall k string in keys(self.FieldsInternal) :: visited(k) ==> haskey(fields, k)\n    ensures @has-every-own-field ret1 == nil ==> forall k string in keys(self.FieldsInternal) :: haskey(ret0, k)\n') if kind=='Object' else ''
        r.append(f'/*@ func (self {vt}) Fields\n    serves C18, C02\n    ensures @has-every-offered-member ret1 == nil ==> '+' && '.join(f'haskey(ret0, "{n}")' for n in names)+'\n    ensures @no-interrupt ret1 == nil\n'+inv+'@*/\n\n')
    splice(f'/repo/homescript/{pkg}/zz_contracts_verif.go',''.join(r))

# ---- member closures: typed arguments in, typed result out, no crash
KIND={'int':'IntValueKind','float':'FloatValueKind','bool':'BoolValueKind','str':'StringValueKind','range':'RangeValueKind','list':'ListValueKind','option':'OptionValueKind','null':'NullValueKind'}
NOLIT={('List','to_json'),('List','to_json_indent'),('AnyObject','to_json'),('AnyObject','to_json_indent'),('Object','to_json'),('Object','to_json_indent')}
HELP = """
// argIs: the k-th argument of a builtin member call is present and of the kind the analyzer advertises.
func argIs(args []Value, k int, kind ValueKind) bool {
	return len(args) > k && args[k] != nil && args[k].Kind() == kind
}

// argAny: the k-th argument is present.
func argAny(args []Value, k int) bool { return len(args) > k && args[k] != nil }

// resIs: a member returned a value of the advertised kind.
func resIs(r *Value, kind ValueKind) bool { return r != nil && *r != nil && (*r).Kind() == kind }

// resAny: a member returned a value.
func resAny(r *Value) bool { return r != nil && *r != nil }

// selfOK: the receiver of a member call is a well-formed value (what every
// constructor of the value library establishes).
func selfOK(v Value) bool {
	switch x := v.(type) {
	case ValueList:
		return x.Values != nil
	case ValueOption:
		return x.Inner == nil || *x.Inner != nil
	case ValueRange:
		if x.Start == nil || x.End == nil || *x.Start == nil || *x.End == nil {
			return false
		}
		_, ok1 := (*x.Start).(ValueInt)
		_, ok2 := (*x.End).(ValueInt)
		return ok1 && ok2
	case ValueAnyObject:
		return x.FieldsInternal != nil
	case ValueObject:
		return x.FieldsInternal != nil
	}
	return v != nil
}

// insertable: positions 0..len are valid for insert (len appends).
func insertableAt(i int64, n int) bool { return 0 <= wrapIndex(i, n) && wrapIndex(i, n) <= int64(n) }

// sortableKind: the element kinds the analyzer offers `sort` for.
func sortableKind(k ValueKind) bool { return k == IntValueKind || k == FloatValueKind || k == StringValueKind }

"""
for pkg in ['runtime/value','interpreter/value']:
    r=[HELP]
    for kind,(st,vt,mem) in T.items():
        for name in sorted(list(mem)+OPTIONAL.get(kind,[])):
            sig = mem.get(name, ([], 'null'))
            if sig is None or (kind,name) in NOLIT:
                continue
            params,res=sig
            req=['selfOK(self)']
            for i,pk in enumerate(params):
                req.append(f'argIs(args, {i}, {KIND[pk]})' if pk in KIND else f'argAny(args, {i})')
                if pk=='list':
                    req.append(f'selfOK(args[{i}])')
            ens = f'resIs(ret0, {KIND[res]})' if res in KIND else 'resAny(ret0)'
            extra=''
            if name=='contains' and kind=='List':
                extra+='    assumepre IsEqual\n'
            if name=='sort':
                req.append('(len(*self.Values) == 0 || ((*self.Values)[0] != nil && *(*self.Values)[0] != nil && sortableKind((*(*self.Values)[0]).Kind())))')
                extra+='    assumepre insertionSortInt, insertionSortFloat, insertionSortString\n'
            if name=='get_type':
                extra+='    assume-unreachable Unsupported type\n'
            if (kind,name)==('List','remove'):
                extra+="""    ensures @out-of-range !inBounds(args[0].(ValueInt).Inner, old(len(*self.Values))) ==> ret1 != nil && len(*self.Values) == old(len(*self.Values))
    ensures @in-range inBounds(args[0].(ValueInt).Inner, old(len(*self.Values))) ==> ret1 == nil && len(*self.Values) == old(len(*self.Values))-1
    ensures @prefix-kept ret1 == nil ==> forall j in 0..wrapIndex(args[0].(ValueInt).Inner, old(len(*self.Values))) :: (*self.Values)[j] == old((*self.Values)[j])
    ensures @suffix-shifted ret1 == nil ==> forall j in wrapIndex(args[0].(ValueInt).Inner, old(len(*self.Values)))..len(*self.Values) :: (*self.Values)[j] == old((*self.Values)[j+1])
"""
            if (kind,name)==('List','insert'):
                extra+="""    ensures @out-of-range !insertableAt(args[0].(ValueInt).Inner, old(len(*self.Values))) ==> ret1 != nil && len(*self.Values) == old(len(*self.Values))
    ensures @in-range insertableAt(args[0].(ValueInt).Inner, old(len(*self.Values))) ==> ret1 == nil && len(*self.Values) == old(len(*self.Values))+1
    ensures @placed ret1 == nil ==> (*self.Values)[wrapIndex(args[0].(ValueInt).Inner, old(len(*self.Values)))] != nil && *(*self.Values)[wrapIndex(args[0].(ValueInt).Inner, old(len(*self.Values)))] == old(args[1])
    ensures @prefix-kept ret1 == nil ==> forall j in 0..wrapIndex(args[0].(ValueInt).Inner, old(len(*self.Values))) :: (*self.Values)[j] == old((*self.Values)[j])
    ensures @suffix-shifted ret1 == nil ==> forall j in wrapIndex(args[0].(ValueInt).Inner, old(len(*self.Values)))+1..len(*self.Values) :: (*self.Values)[j] == old((*self.Values)[j-1])
"""
            r.append(f'/*@ func (self {vt}) Fields["{name}"]\n    serves C18, C02\n'+extra+'    requires '+' && '.join(req)+f'\n    ensures @typed-result ret1 == nil ==> {ens}\n    ensures @interrupt-or-value ret1 != nil ==> *ret1 != nil\n@*/\n\n')
    um = 'UnmarshalValue' if pkg=='runtime/value' else 'unmarshalValue'
    r.append(f'// JSON decoding is outside the member contracts (C12): assumed to return a value or an interrupt.\n\n/*@ func {um}\n    serves C18\n    trusted\n    ensures ret1 == nil ==> resAny(ret0)\n    ensures ret1 != nil ==> *ret1 != nil\n@*/\n\n')
    path=f'/repo/homescript/{pkg}/zz_contracts_verif.go'
    s2=open(path).read()
    B2='// BEGIN GENERATED member closures (tools/gen_member_contracts.py)\n'; E2='// END GENERATED member closures\n'
    if B2 in s2:
        s2=s2[:s2.index(B2)]+s2[s2.index(E2)+len(E2):]
    s2=s2.rstrip('\n')+'\n\n'+B2+''.join(r)+E2
    open(path,'w').write(s2)
print('generated')
