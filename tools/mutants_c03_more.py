import sys; sys.path.insert(0,'/verif/tools')
from mutlib import mutant
import os
E='homescript/analyzer/expression.go'
S='homescript/analyzer/statement.go'
T='homescript/analyzer/topLevel.go'

def infunc(rel, header, old, new):
    """old/new restricted to the function starting with header: returns (old_block, new_block)"""
    src = open(os.path.join('/repo', rel)).read()
    i = src.index(header)
    j = src.find('\nfunc ', i + 1)
    if j < 0:
        j = len(src)
    body = src[i:j]
    assert body.count(old) >= 1, f"old text not found in {header}"
    return body, body.replace(old, new, 1)

# range literal: the end bound is no longer checked
mutant('c03-range-end-unchecked','C03','rangeLiteralExpression',E,
 'if err := self.TypeCheck(end.Type(), ast.NewIntType(errors.Span{}), TypeCheckOptions{}); err != nil {',
 'if err := self.TypeCheck(end.Type(), ast.NewIntType(errors.Span{}), TypeCheckOptions{}); err != nil && end.Type().Kind() != ast.FloatTypeKind {')
# range literal: an error although the bound is an int
mutant('c03-range-start-always-reported','C03','rangeLiteralExpression',E,
 'if err := self.TypeCheck(start.Type(), ast.NewIntType(errors.Span{}), TypeCheckOptions{}); err != nil {',
 'if err := self.TypeCheck(start.Type(), ast.NewIntType(errors.Span{}), TypeCheckOptions{}); err != nil || start.Constant() {')
# return: a missing value is accepted for every result type
o,n = infunc(S,'func (self *Analyzer) returnStatement','	}); err != nil {\n		self.diagnostics = append(self.diagnostics, err.GotDiagnostic)','	}); err != nil && returnExpression != nil {\n		self.diagnostics = append(self.diagnostics, err.GotDiagnostic)')
mutant('c03-return-without-value-accepted','C03','returnStatement',S,o,n)
# return outside a function is silently accepted
o,n = infunc(S,'func (self *Analyzer) returnStatement','''		self.error(
			"Illegal use of return statement outside of function body",
			nil,
			node.Span(),
		)
''','')
mutant('c03-return-outside-function-accepted','C03','returnStatement',S,o,n)
# list literal: elements are compared with `any` instead of the first element's type
mutant('c03-list-elements-unchecked','C03','listLiteralExpression',E,
 'err != nil && listType.Kind() != ast.AnyTypeKind {','err != nil && listType.Kind() == ast.AnyTypeKind {')
# list literal: the element type is never fixed
o,n = infunc(E,'func (self *Analyzer) listLiteralExpression','			listType = valExpression.Type()\n','			listType = ast.NewAnyType(node.Range)\n')
mutant('c03-list-type-stays-any','C03','listLiteralExpression',E,o,n)
# index: a str may be indexed by a float
o,n = infunc(E,'func (self *Analyzer) indexExpression','''	case ast.StringTypeKind:
		// ensure that the index expression is an `int`
		if index.Type().Kind() != ast.IntTypeKind {''','''	case ast.StringTypeKind:
		// ensure that the index expression is an `int`
		if index.Type().Kind() != ast.IntTypeKind && index.Type().Kind() != ast.FloatTypeKind {''')
mutant('c03-str-indexed-by-float','C03','indexExpression',E,o,n)
# index: an int can be indexed (yields unknown)
o,n = infunc(E,'func (self *Analyzer) indexExpression','	case ast.UnknownTypeKind, ast.NeverTypeKind:\n		// this also yields the same type','	case ast.UnknownTypeKind, ast.NeverTypeKind, ast.IntTypeKind:\n		// this also yields the same type')
mutant('c03-int-indexable','C03','indexExpression',E,o,n)
# index: the element of a list has the type of the list
o,n = infunc(E,'func (self *Analyzer) indexExpression','			resultType = list.Inner.SetSpan(node.Range)','			resultType = list.SetSpan(node.Range)')
mutant('c03-list-element-has-list-type','C03','indexExpression',E,o,n)
# assignment: type mismatch unreported
o,n = infunc(E,'func (self *Analyzer) assignExpression','	if err := self.TypeCheck(rhs.Type(), lhs.Type(), TypeCheckOptions{}); err != nil {','	if err := self.TypeCheck(rhs.Type(), lhs.Type(), TypeCheckOptions{}); err != nil && node.AssignOperator != pAst.StdAssignOperatorKind {')
mutant('c03-assign-mismatch-accepted','C03','assignExpression',E,o,n)
# assignment: `-=` on strings
o,n = infunc(E,'func (self *Analyzer) assignExpression','		case pAst.StdAssignOperatorKind, pAst.PlusAssignOperatorKind:\n','		case pAst.StdAssignOperatorKind, pAst.PlusAssignOperatorKind, pAst.MinusAssignOperatorKind:\n')
mutant('c03-minus-assign-on-str','C03','assignExpression',E,o,n)
# assignment: `%=` on floats (the defect repaired by the fix commit, as a canary)
o,n = infunc(E,'func (self *Analyzer) assignExpression','			pAst.DivideAssignOperatorKind, pAst.PowerAssignOperatorKind:','			pAst.DivideAssignOperatorKind, pAst.ModuloAssignOperatorKind, pAst.PowerAssignOperatorKind:')
mutant('c03-modulo-assign-on-float','C03','assignExpression',E,o,n)
# assignment: `+=` rejected on ints
o,n = infunc(E,'func (self *Analyzer) assignExpression','		case pAst.StdAssignOperatorKind, pAst.PlusAssignOperatorKind, pAst.MinusAssignOperatorKind,\n			pAst.MultiplyAssignOperatorKind, pAst.DivideAssignOperatorKind, pAst.ModuloAssignOperatorKind, pAst.PowerAssignOperatorKind,','		case pAst.StdAssignOperatorKind, pAst.MinusAssignOperatorKind,\n			pAst.MultiplyAssignOperatorKind, pAst.DivideAssignOperatorKind, pAst.ModuloAssignOperatorKind, pAst.PowerAssignOperatorKind,')
mutant('c03-plus-assign-on-int-rejected','C03','assignExpression',E,o,n)
# call: argument types unchecked
o,n = infunc(E,'func (self *Analyzer) callArgs','''				if err := self.TypeCheck(argExpr.Type(), newParams[idx].Type, TypeCheckOptions{
					AllowFunctionTypes:          true,
					IgnoreFnParamNameMismatches: false,
				}); err != nil {''','''				if err := self.TypeCheck(argExpr.Type(), newParams[idx].Type, TypeCheckOptions{
					AllowFunctionTypes:          true,
					IgnoreFnParamNameMismatches: false,
				}); err != nil && idx == 0 {''')
mutant('c03-call-later-arguments-unchecked','C03','callArgs',E,o,n)
# call: too many arguments accepted
o,n = infunc(E,'func (self *Analyzer) callArgs','		if len(args.List) != len(newParams) {','		if len(args.List) < len(newParams) {')
mutant('c03-call-too-many-arguments','C03','callArgs',E,o,n)
# call: rejected argument not reported
o,n = infunc(E,'func (self *Analyzer) callArgs','''				}); err != nil {
					self.diagnostics = append(self.diagnostics, err.GotDiagnostic)
				} else {
					arguments = append(arguments, ast.AnalyzedCallArgument{
						Name:       newParams[idx].Name.Ident(),''','''				}); err != nil {
				} else {
					arguments = append(arguments, ast.AnalyzedCallArgument{
						Name:       newParams[idx].Name.Ident(),''')
mutant('c03-call-mismatch-unreported','C03','callArgs',E,o,n)
# function: body type unchecked
o,n = infunc(T,'func (self *Analyzer) functionDefinition','''	}); err != nil {
		self.diagnostics = append(self.diagnostics, err.GotDiagnostic)''','''	}); err != nil && fnReturnType.Kind() == ast.NullTypeKind {
		self.diagnostics = append(self.diagnostics, err.GotDiagnostic)''')
mutant('c03-function-body-type-unchecked','C03','functionDefinition',T,o,n)
# main may return a value
o,n = infunc(T,'func (self *Analyzer) functionDefinition','			fnReturnType = ast.NewUnknownType()\n		}\n	} else {','		}\n	} else {')
mutant('c03-main-keeps-its-result-type','C03','functionDefinition',T,o,n)
# cast: str as int accepted
o,n = infunc(E,'func (self *Analyzer) castExpression','	if err := self.TypeCheck(base.Type(), asType, TypeCheckOptions{}); err != nil {','	if err := self.TypeCheck(base.Type(), asType, TypeCheckOptions{}); err != nil && base.Type().Kind() != ast.StringTypeKind {')
mutant('c03-cast-str-to-anything','C03','castExpression',E,o,n)
# cast: int as float rejected
o,n = infunc(E,'func (self *Analyzer) castExpression','		case ast.BoolTypeKind, ast.FloatTypeKind:\n','		case ast.BoolTypeKind:\n')
mutant('c03-cast-int-to-float-rejected','C03','castExpression',E,o,n)
# let: annotation mismatch unreported
o,n = infunc(S,'func (self *Analyzer) letStatement','''		}); err != nil {
			self.diagnostics = append(self.diagnostics, err.GotDiagnostic)''','''		}); err != nil && isGlobal {
			self.diagnostics = append(self.diagnostics, err.GotDiagnostic)''')
mutant('c03-let-annotation-unchecked','C03','letStatement',S,o,n)
# let: the annotation is ignored
o,n = infunc(S,'func (self *Analyzer) letStatement','			varType = optType\n','			varType = rhsType\n')
mutant('c03-let-annotation-ignored','C03','letStatement',S,o,n)
# member: unknown member silently accepted
o,n = infunc(E,'func (self *Analyzer) memberExpression','''				self.error(
					fmt.Sprintf("Type '%s' has no member named '%s'", base.Type(), node.Member.Ident()),
					notes,
					node.Member.Span(),
				)
''','')
mutant('c03-unknown-member-accepted','C03','memberExpression',E,o,n)
# member: `->` on any value
o,n = infunc(E,'func (self *Analyzer) memberExpression','			if base.Type().Kind() != ast.AnyObjectTypeKind {','			if base.Type().Kind() != ast.AnyObjectTypeKind && base.Type().Kind() != ast.ObjectTypeKind {')
mutant('c03-arrow-on-objects','C03','memberExpression',E,o,n)
print("done")
# call: a value that is not a function can be called
o,n = infunc(E,'func (self *Analyzer) callExpression','	case ast.NeverTypeKind, ast.UnknownTypeKind:\n		// do nothing','	case ast.NeverTypeKind, ast.UnknownTypeKind, ast.IntTypeKind:\n		// do nothing')
mutant('c03-int-callable','C03','callExpression',E,o,n)
# call: the repaired nil dereference of a spawn without a callee type (canary)
o,n = infunc(E,'func (self *Analyzer) callExpression','	if node.IsSpawn && thisExpressionResultsIn != nil {','	if node.IsSpawn {')
mutant('c05-spawn-of-unknown-callee','C05','callExpression',E,o,n)
F='homescript/fuzzer/expression.go'
o,n = infunc(F,'func (self *Transformer) ifExpression','''			Base: ast.AnalyzedGroupedExpression{
				Inner: self.Expression(node.Condition, false),
				Range: node.Range,
			},''','''			Base: self.Expression(node.Condition, false),''')
mutant('c20-inverted-if-ungrouped','C20','ifExpression',F,o,n)
o,n = infunc(F,'func (self *Transformer) ifExpression','	if node.ElseBlock != nil {\n		b := self.Block(*node.ElseBlock)','	if node.ElseBlock != nil && len(node.ElseBlock.Statements) > 0 {\n		b := self.Block(*node.ElseBlock)')
mutant('c20-plain-if-loses-else','C20','ifExpression',F,o,n)
print("done 2")
