import sys; sys.path.insert(0,'/verif/tools')
from mutlib import mutant
import os
E='homescript/analyzer/expression.go'
S='homescript/analyzer/statement.go'
T='homescript/analyzer/topLevel.go'

def infunc(rel, header, old, new):
    """old/new restricted to the function starting with header: returns (old_block, new_block)"""
    src = open(os.path.join('/repo', rel)).read()
    i = src.index(header)
    j = src.find('\nfunc ', i + 1)
    if j < 0:
        j = len(src)
    body = src[i:j]
    assert body.count(old) >= 1, f"old text not found in {header}"
    return body, body.replace(old, new, 1)

# range literal: the end bound is no longer checked
mutant('c03-range-end-unchecked','C03','rangeLiteralExpression',E,
 'if err := self.TypeCheck(end.Type(), ast.NewIntType(errors.Span{}), TypeCheckOptions{}); err != nil {',
 'if err := self.TypeCheck(end.Type(), ast.NewIntType(errors.Span{}), TypeCheckOptions{}); err != nil && end.Type().Kind() != ast.FloatTypeKind {')
# range literal: an error although the bound is an int
mutant('c03-range-start-always-reported','C03','rangeLiteralExpression',E,
 'if err := self.TypeCheck(start.Type(), ast.NewIntType(errors.Span{}), TypeCheckOptions{}); err != nil {',
 'if err := self.TypeCheck(start.Type(), ast.NewIntType(errors.Span{}), TypeCheckOptions{}); err != nil || start.Constant() {')
# return: a missing value is accepted for every result type
o,n = infunc(S,'func (self *Analyzer) returnStatement','	}); err != nil {\n		self.diagnostics = append(self.diagnostics, err.GotDiagnostic)','	}); err != nil && returnExpression != nil {\n		self.diagnostics = append(self.diagnostics, err.GotDiagnostic)')
mutant('c03-return-without-value-accepted','C03','returnStatement',S,o,n)
# return outside a function is silently accepted
o,n = infunc(S,'func (self *Analyzer) returnStatement','''		self.error(
			"Illegal use of return statement outside of function body",
			nil,
			node.Span(),
		)
''','')
mutant('c03-return-outside-function-accepted','C03','returnStatement',S,o,n)
# list literal: elements are compared with `any` instead of the first element's type
mutant('c03-list-elements-unchecked','C03','listLiteralExpression',E,
 'err != nil && listType.Kind() != ast.AnyTypeKind {','err != nil && listType.Kind() == ast.AnyTypeKind {')
# list literal: the element type is never fixed
o,n = infunc(E,'func (self *Analyzer) listLiteralExpression','			listType = valExpression.Type()\n','			listType = ast.NewAnyType(node.Range)\n')
mutant('c03-list-type-stays-any','C03','listLiteralExpression',E,o,n)
# index: a str may be indexed by a float
o,n = infunc(E,'func (self *Analyzer) indexExpression','''	case ast.StringTypeKind:
		// ensure that the index expression is an `int`
		if index.Type().Kind() != ast.IntTypeKind {''','''	case ast.StringTypeKind:
		// ensure that the index expression is an `int`
		if index.Type().Kind() != ast.IntTypeKind && index.Type().Kind() != ast.FloatTypeKind {''')
mutant('c03-str-indexed-by-float','C03','indexExpression',E,o,n)
# index: an int can be indexed (yields unknown)
o,n = infunc(E,'func (self *Analyzer) indexExpression','	case ast.UnknownTypeKind, ast.NeverTypeKind:\n		// this also yields the same type','	case ast.UnknownTypeKind, ast.NeverTypeKind, ast.IntTypeKind:\n		// this also yields the same type')
mutant('c03-int-indexable','C03','indexExpression',E,o,n)
# index: the element of a list has the type of the list
o,n = infunc(E,'func (self *Analyzer) indexExpression','			resultType = list.Inner.SetSpan(node.Range)','			resultType = list.SetSpan(node.Range)')
mutant('c03-list-element-has-list-type','C03','indexExpression',E,o,n)
# assignment: type mismatch unreported
o,n = infunc(E,'func (self *Analyzer) assignExpression','	if err := self.TypeCheck(rhs.Type(), lhs.Type(), TypeCheckOptions{}); err != nil {','	if err := self.TypeCheck(rhs.Type(), lhs.Type(), TypeCheckOptions{}); err != nil && node.AssignOperator != pAst.StdAssignOperatorKind {')
mutant('c03-assign-mismatch-accepted','C03','assignExpression',E,o,n)
# assignment: `-=` on strings
o,n = infunc(E,'func (self *Analyzer) assignExpression','		case pAst.StdAssignOperatorKind, pAst.PlusAssignOperatorKind:\n','		case pAst.StdAssignOperatorKind, pAst.PlusAssignOperatorKind, pAst.MinusAssignOperatorKind:\n')
mutant('c03-minus-assign-on-str','C03','assignExpression',E,o,n)
# assignment: `%=` on floats (the defect repaired by the fix commit, as a canary)
o,n = infunc(E,'func (self *Analyzer) assignExpression','			pAst.DivideAssignOperatorKind, pAst.PowerAssignOperatorKind:','			pAst.DivideAssignOperatorKind, pAst.ModuloAssignOperatorKind, pAst.PowerAssignOperatorKind:')
mutant('c03-modulo-assign-on-float','C03','assignExpression',E,o,n)
# assignment: `+=` rejected on ints
o,n = infunc(E,'func (self *Analyzer) assignExpression','		case pAst.StdAssignOperatorKind, pAst.PlusAssignOperatorKind, pAst.MinusAssignOperatorKind,\n			pAst.MultiplyAssignOperatorKind, pAst.DivideAssignOperatorKind, pAst.ModuloAssignOperatorKind, pAst.PowerAssignOperatorKind,','		case pAst.StdAssignOperatorKind, pAst.MinusAssignOperatorKind,\n			pAst.MultiplyAssignOperatorKind, pAst.DivideAssignOperatorKind, pAst.ModuloAssignOperatorKind, pAst.PowerAssignOperatorKind,')
mutant('c03-plus-assign-on-int-rejected','C03','assignExpression',E,o,n)
# call: argument types unchecked
o,n = infunc(E,'func (self *Analyzer) callArgs','''				if err := self.TypeCheck(argExpr.Type(), newParams[idx].Type, TypeCheckOptions{
					AllowFunctionTypes:          true,
					IgnoreFnParamNameMismatches: false,
				}); err != nil {''','''				if err := self.TypeCheck(argExpr.Type(), newParams[idx].Type, TypeCheckOptions{
					AllowFunctionTypes:          true,
					IgnoreFnParamNameMismatches: false,
				}); err != nil && idx == 0 {''')
mutant('c03-call-later-arguments-unchecked','C03','callArgs',E,o,n)
# call: too many arguments accepted
o,n = infunc(E,'func (self *Analyzer) callArgs','		if len(args.List) != len(newParams) {','		if len(args.List) < len(newParams) {')
mutant('c03-call-too-many-arguments','C03','callArgs',E,o,n)
# call: rejected argument not reported
o,n = infunc(E,'func (self *Analyzer) callArgs','''				}); err != nil {
					self.diagnostics = append(self.diagnostics, err.GotDiagnostic)
				} else {
					arguments = append(arguments, ast.AnalyzedCallArgument{
						Name:       newParams[idx].Name.Ident(),''','''				}); err != nil {
				} else {
					arguments = append(arguments, ast.AnalyzedCallArgument{
						Name:       newParams[idx].Name.Ident(),''')
mutant('c03-call-mismatch-unreported','C03','callArgs',E,o,n)
# function: body type unchecked
o,n = infunc(T,'func (self *Analyzer) functionDefinition','''	}); err != nil {
		self.diagnostics = append(self.diagnostics, err.GotDiagnostic)''','''	}); err != nil && fnReturnType.Kind() == ast.NullTypeKind {
		self.diagnostics = append(self.diagnostics, err.GotDiagnostic)''')
mutant('c03-function-body-type-unchecked','C03','functionDefinition',T,o,n)
# main may return a value
o,n = infunc(T,'func (self *Analyzer) functionDefinition','			fnReturnType = ast.NewUnknownType()\n		}\n	} else {','		}\n	} else {')
mutant('c03-main-keeps-its-result-type','C03','functionDefinition',T,o,n)
# cast: str as int accepted
o,n = infunc(E,'func (self *Analyzer) castExpression','	if err := self.TypeCheck(base.Type(), asType, TypeCheckOptions{}); err != nil {','	if err := self.TypeCheck(base.Type(), asType, TypeCheckOptions{}); err != nil && base.Type().Kind() != ast.StringTypeKind {')
mutant('c03-cast-str-to-anything','C03','castExpression',E,o,n)
# cast: int as float rejected
o,n = infunc(E,'func (self *Analyzer) castExpression','		case ast.BoolTypeKind, ast.FloatTypeKind:\n','		case ast.BoolTypeKind:\n')
mutant('c03-cast-int-to-float-rejected','C03','castExpression',E,o,n)
# let: annotation mismatch unreported
o,n = infunc(S,'func (self *Analyzer) letStatement','''		}); err != nil {
			self.diagnostics = append(self.diagnostics, err.GotDiagnostic)''','''		}); err != nil && isGlobal {
			self.diagnostics = append(self.diagnostics, err.GotDiagnostic)''')
mutant('c03-let-annotation-unchecked','C03','letStatement',S,o,n)
# let: the annotation is ignored
o,n = infunc(S,'func (self *Analyzer) letStatement','			varType = optType\n','			varType = rhsType\n')
mutant('c03-let-annotation-ignored','C03','letStatement',S,o,n)
# member: unknown member silently accepted
o,n = infunc(E,'func (self *Analyzer) memberExpression','''				self.error(
					fmt.Sprintf("Type '%s' has no member named '%s'", base.Type(), node.Member.Ident()),
					notes,
					node.Member.Span(),
				)
''','')
mutant('c03-unknown-member-accepted','C03','memberExpression',E,o,n)
# member: `->` on any value
o,n = infunc(E,'func (self *Analyzer) memberExpression','			if base.Type().Kind() != ast.AnyObjectTypeKind {','			if base.Type().Kind() != ast.AnyObjectTypeKind && base.Type().Kind() != ast.ObjectTypeKind {')
mutant('c03-arrow-on-objects','C03','memberExpression',E,o,n)
print("done")
# call: a value that is not a function can be called
o,n = infunc(E,'func (self *Analyzer) callExpression','	case ast.NeverTypeKind, ast.UnknownTypeKind:\n		// do nothing','	case ast.NeverTypeKind, ast.UnknownTypeKind, ast.IntTypeKind:\n		// do nothing')
mutant('c03-int-callable','C03','callExpression',E,o,n)
# call: the repaired nil dereference of a spawn without a callee type (canary)
o,n = infunc(E,'func (self *Analyzer) callExpression','	if node.IsSpawn && thisExpressionResultsIn != nil {','	if node.IsSpawn {')
mutant('c05-spawn-of-unknown-callee','C05','callExpression',E,o,n)
F='homescript/fuzzer/expression.go'
o,n = infunc(F,'func (self *Transformer) ifExpression','''			Base: ast.AnalyzedGroupedExpression{
				Inner: self.Expression(node.Condition, false),
				Range: node.Range,
			},''','''			Base: self.Expression(node.Condition, false),''')
mutant('c20-inverted-if-ungrouped','C20','ifExpression',F,o,n)
o,n = infunc(F,'func (self *Transformer) ifExpression','	if node.ElseBlock != nil {\n		b := self.Block(*node.ElseBlock)','	if node.ElseBlock != nil && len(node.ElseBlock.Statements) > 0 {\n		b := self.Block(*node.ElseBlock)')
mutant('c20-plain-if-loses-else','C20','ifExpression',F,o,n)
print("done 2")
# --- round 3 additions
M='homescript/analyzer/module.go'
o,n = infunc(M,'func (self Module) getVar','	for idx := len(self.Scopes) - 1; idx >= 0; idx-- {\n		val, found := self.Scopes[idx].Values[ident]','	for idx := 0; idx < len(self.Scopes); idx++ {\n		val, found := self.Scopes[idx].Values[ident]')
mutant('c03-variable-lookup-outermost-first','C03','getVar',M,o,n)
o,n = infunc(M,'func (self Module) getType','	for idx := len(self.Scopes) - 1; idx >= 0; idx-- {\n		val, found := self.Scopes[idx].Types[ident]','	for idx := len(self.Scopes) - 1; idx > 0; idx-- {\n		val, found := self.Scopes[idx].Types[ident]')
mutant('c03-type-lookup-skips-the-root-scope','C03','getType',M,o,n)
o,n = infunc(E,'func (self *Analyzer) ifExpression','			} else if elseBlockTemp.ResultType.Kind() == ast.NeverTypeKind {\n				resultType = thenBlock.ResultType.SetSpan(node.Range)\n			}','			}')
mutant('c03-if-with-diverging-else-is-never','C03','ifExpression',E,o,n)
TY='homescript/analyzer/typing.go'
o,n = infunc(TY,'func (self *Analyzer) TypeCheck','''		err, proceed := self.checkTypeKindEquality(got, expected)
		if err != nil || !proceed {
			return err
		}
		expectedObj := expected.(ast.ObjectType)''','''		expectedObj := expected.(ast.ObjectType)
		err, proceed := self.checkTypeKindEquality(got, expected)
		if err != nil || !proceed {
			return err
		}''')
mutant('c05-typecheck-asserts-before-the-kind-check','C05','TypeCheck',TY,o,n)
o,n = infunc(S,'func (self *Analyzer) letStatement','		NeedsRuntimeTypeValidation: rhsHasAny,','		NeedsRuntimeTypeValidation: rhsHasAny && node.OptType != nil && rhsType.Kind() == ast.AnyTypeKind,')
mutant('c12-let-validates-only-a-bare-any','C12','letStatement',S,o,n)
CS='homescript/compiler/statement.go'
o,n = infunc(CS,'func (self *Compiler) compileLetStmt','		self.insert(newCastInstruction(node.OptType, false), node.Type().Span())','		self.insert(newCastInstruction(node.OptType, true), node.Type().Span())')
mutant('c12-annotated-let-converts','C12','compileLetStmt',CS,o,n)
o,n = infunc(CS,'func (self *Compiler) compileLetStmt','	if node.NeedsRuntimeTypeValidation {','	if node.NeedsRuntimeTypeValidation && !isGlobal {')
mutant('c12-global-let-is-not-validated','C12','compileLetStmt',CS,o,n)
CE='homescript/compiler/expression.go'
mutant('c12-cast-expression-lowered-with-the-value-type','C12','compileExprInner',CE,'		self.insert(newCastInstruction(node.AsType, true), node.Range)','		self.insert(newCastInstruction(node.Base.Type(), true), node.Range)')
X='homescript/runtime/execute.go'
mutant('c12-failed-cast-is-fatal','C12','runInstruction',X,'''			return value.NewVMThrowInterrupt(
				castError.Span,
				castError.Message(),
			)
		}
		self.push(casted)''','''			return value.NewVMFatalException(
				castError.Message(),
				value.Vm_CastErrorKind,
				castError.Span,
			)
		}
		self.push(casted)''')
V='homescript/runtime/vm.go'
mutant('c12-host-arguments-may-convert','C12','SpawnSync',V,'		_, interrupt := value.DeepCast(arg, param.Type, errors.Span{}, false)','		_, interrupt := value.DeepCast(arg, param.Type, errors.Span{}, true)',2)
print("done 3")
o,n = infunc(S,'func (self *Analyzer) triggerStatement','''	if self.currentModule.CurrentFunction == nil {
		// outside of any function (e.g. in the initializer of a global), there is no current function to compare with
		callbackFn.Used = true
	} else if self.currentModule.CurrentFunction.FnType.Kind() == normalFunctionKind {''','''	if self.currentModule.CurrentFunction.FnType.Kind() == normalFunctionKind {''')
mutant('c05-trigger-outside-a-function','C05','triggerStatement',S,o,n)
print("done 4")
