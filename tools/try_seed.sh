#!/bin/sh
# usage: try_seed.sh <seed dir containing patch.diff> <property>...
# applies the patch to /repo, runs the given checks, undoes the patch
d=$1; shift
cd /repo || exit 2
git apply "$d/patch.diff" || { echo "PATCH DOES NOT APPLY"; exit 2; }
for p in "$@"; do
  HVC_REPLAYDIR=/var/tmp/hvc-seed-replay /verif/bin/hvc check -property $p -noevidence 2>&1 | grep "^VIOLATION\|^hvc:" | cut -c1-260
done
git -C /repo checkout -- . 
git -C /repo status --short | head -3
