#!/bin/bash
# assembles /repo/homescript/lexer/zz_contracts_verif.go from its parts
cd /verif/tools && python3 gen_lexer_contracts.py > /var/tmp/lexer_gen_tab.txt && cat lexer_head.go.txt lexer_ops.go.txt lexer_rest.go.txt /var/tmp/lexer_gen_tab.txt > /repo/homescript/lexer/zz_contracts_verif.go && rm -f /var/tmp/lexer_gen_tab.txt
