#!/usr/bin/env python3
"""seed_prompt.py <ID>: create a scratch worktree /tmp/wt-<ID> of /repo HEAD and print the prompt for a fresh sub-agent
(property text only; nothing from /verif)."""
import json, sys, subprocess
pid = sys.argv[1]
suffix = sys.argv[2] if len(sys.argv) > 2 else ''
prop = [json.loads(l) for l in open('/verif/properties.jsonl') if json.loads(l)['id'] == pid][0]
wt = f'/tmp/wt-{pid}{suffix}'
subprocess.run(['git','-C','/repo','worktree','remove','--force',wt],capture_output=True)
subprocess.run(['git','-C','/repo','worktree','add','-q','--detach',wt,'HEAD'],check=True)
text = f"""You are helping to evaluate a test/verification effort for the Go project smarthome-go/homescript (a statically typed scripting language: lexer, parser, analyzer, bytecode compiler, stack VM, tree-walking interpreter). You have your own scratch git worktree of the project at {wt} (work ONLY there; never touch /repo; do not read anything under /verif).

Every shell command needs: export GOFLAGS=-mod=mod GOPROXY=off GOSUMDB=off GOTOOLCHAIN=local  (no network is available).

The property under study ({pid}): "{prop['title']}"
Statement: {prop['statement']}
It must hold for: {prop['quantifier']['text']}
Code it is anchored in: {', '.join(prop['anchors']['files'])}

Your task: write 4 INDEPENDENT, REALISTIC changes to the project's non-test Go source (the kind of slip or "improvement" a maintainer could plausibly commit), each of which BREAKS this property, and each of which
 (a) compiles (go build ./...),
 (b) leaves the project's existing test suite passing (go test -vet=off -count=1 ./... in {wt}),
 (c) comes with a demonstration: a Go test file (package homescript, to be placed in {wt}/homescript/, file name ending in _test.go, test function names prefixed TestSeed{pid}{suffix}) that FAILS with the change applied and PASSES on the unchanged tree,
 (d) needs something specific to manifest (a particular operand value, nesting, configuration, sequence of calls ...), i.e. is not visible on every run of every program.
Make the 4 changes different in mechanism and, where possible, in location. Do not modify test files, build files or files whose name starts with zz_ (those are specification files that are not part of the product).

For each change i = 1..4: start from a clean worktree (git -C {wt} checkout -- . && git -C {wt} clean -fdq), make the change, verify (a)-(d) yourself, then save into /tmp/seeds-{pid}{suffix}/<i>/ :
  patch.diff     (git -C {wt} diff, must apply with `git apply` to a clean HEAD)
  demo_test.go   (the demonstration; top comment says where to copy it)
  meta.json      {{"property": "{pid}", "summary": "<one or two sentences: what was changed and where>", "needs": "<what it takes to manifest>", "demo_dir": "homescript"}}
Finish with the worktree clean. Report briefly what the four changes are and what you observed for each of (a)-(d)."""
print(text)
