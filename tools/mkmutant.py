#!/usr/bin/env python3
"""mkmutant.py <id> <property> <expected-obligation-substring> <file relative to /repo> <old> <new>
Writes /verif/selftest/mutants/<id>.diff: a deliberate property-breaking edit for hvc's must-fail corpus."""
import sys, difflib, os
mid, prop, expect, rel, old, new = sys.argv[1:7]
src = open(os.path.join('/repo', rel)).read()
old = old.encode().decode('unicode_escape'); new = new.encode().decode('unicode_escape')
assert src.count(old) >= 1, "old text not found"
mut = src.replace(old, new, 1)
diff = ''.join(difflib.unified_diff(src.splitlines(True), mut.splitlines(True), 'a/'+rel, 'b/'+rel))
open(f'/verif/selftest/mutants/{mid}.diff','w').write(f"# property: {prop}\n# expect: {expect}\n" + diff)
print("wrote", mid)
