#!/bin/bash
# run every claimed check (quick tier by default) on /repo and print one line each
tier=${1:-quick}
cd /verif
for p in $(python3 -c "import json;print(' '.join(c['property_id'] for c in json.load(open('/verif/MANIFEST.json'))['checks']))"); do
  s=$(date +%s)
  out=$(./run.sh $p $tier 2>&1); rc=$?
  e=$(date +%s)
  echo "$p rc=$rc $((e-s))s $(echo "$out" | grep -c '^VIOLATION') violations; $(echo "$out" | tail -1)"
done
# the runtime-checked (replay) build must compile and run on the unchanged tree
if HVC_RACOUT=1 /verif/bin/hvc rac lex,parse,analyze,run 'fn main() { println(1 + 2); }' 2>&1 | grep -q INFO-ACCEPTED; then echo "replay-build ok"; else echo "replay-build BROKEN"; fi
