#!/bin/bash
# runhms.sh '<program text>': run a Homescript program on both backends of /repo (debugging aid)
export GOFLAGS=-mod=mod GOPROXY=off GOSUMDB=off GOTOOLCHAIN=local
d=$(mktemp -d /var/tmp/runhms.XXXX)
cp /verif/tools/runhms/zz_runhms_test.go.txt $d/zz_runhms_test.go
echo "{\"Replace\":{\"/repo/homescript/zz_runhms_test.go\":\"$d/zz_runhms_test.go\"}}" > $d/ov.json
(cd /repo && HMS_PROGRAM="$1" go test -v -overlay $d/ov.json -vet=off -count=1 -timeout 60s -run '^TestRunHms$' ./homescript/ 2>&1 | grep -v "^ok\|^PASS\|^=== RUN\|^--- PASS" | cut -c1-${3:-600} | head -${2:-20})
rm -rf $d
