import sys; sys.path.insert(0,'/verif/tools')
from mutlib import mutant
T='homescript/analyzer/typing.go'
mutant('c03-fn-param-name-or-type','C03','TypeCheck',T,'if options.IgnoreFnParamNameMismatches && paramTypeErr == nil {','if options.IgnoreFnParamNameMismatches || paramTypeErr == nil {')
mutant('c03-fn-param-any-name','C03','TypeCheck',T,'''					if expectedParam.Name.Ident() == gotParam.Name.Ident() {
						foundParam = &gotParam
						break
					}''','''					if len(expectedParam.Name.Ident()) == len(gotParam.Name.Ident()) {
						foundParam = &gotParam
						break
					}''')
TL='homescript/analyzer/topLevel.go'
mutant('c03-template-excess-method-unreported','C03','validateTemplateConstraints#progress',TL,'''		if !isRequired {
			self.error(
				fmt.Sprintf("Additional method''','''		if !isRequired && len(methods) > 64 {
			self.error(
				fmt.Sprintf("Additional method''')
mutant('c03-template-missing-method-unreported','C03','validateTemplateConstraints#assert:missing-method-reported',TL,'''		if !isImplemented {
			returnType := ""''','''		if !isImplemented && len(methods) > 0 {
			returnType := ""''')
mutant('c03-template-required-from-base','C03','validateTemplateConstraints',TL,'''		for reqName := range requiredMethods {
			if reqName == method.Ident.Ident() {
				isRequired = true
				break
			}
		}''','''		for reqName := range templateSpec.BaseMethods {
			if reqName == method.Ident.Ident() {
				isRequired = true
				break
			}
		}''')
