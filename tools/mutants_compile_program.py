import sys; sys.path.insert(0,'/verif/tools')
from mutlib import mutant
CC='homescript/compiler/compiler.go'
mutant('c15-second-pass-shared-scope','C15','compileProgram#assert:own-root-scope',CC,'''		self.varScopes[0] = self.globalScopes[moduleName]
		self.currScope = &self.varScopes[0]
		for _, item := range module.Imports {''','''		for _, item := range module.Imports {''')
mutant('c15-init-call-skipped','C15','compileProgram#progress',CC,'''				if moduleName == entryPointModule {
					continue
				}

				self.insert(newOneStringInstruction(Opcode_Call_Imm, otherInit), mainFnSpan)''','''				if moduleName == entryPointModule || len(moduleName) > 64 {
					continue
				}

				self.insert(newOneStringInstruction(Opcode_Call_Imm, otherInit), mainFnSpan)''')
mutant('c15-root-scope-only-first-module','C15','compileProgram',CC,'''		self.varScopes[0] = make(map[string]string)
		self.currScope = &self.varScopes[0]
		self.globalScopes[moduleName] = self.varScopes[0]''','''		if len(self.globalScopes) == 0 {
			self.varScopes[0] = make(map[string]string)
			self.currScope = &self.varScopes[0]
			self.globalScopes[moduleName] = self.varScopes[0]
		}''')
mutant('c14-init-calls-wrong-routine','C14','compileProgram#progress',CC,'''				self.insert(newOneStringInstruction(Opcode_Call_Imm, otherInit), mainFnSpan)''','''				self.insert(newOneStringInstruction(Opcode_Call_Imm, initFns[entryPointModule]), mainFnSpan)''')
