import sys; sys.path.insert(0,'/verif/tools')
from mutlib import mutant
E='homescript/analyzer/expression.go'
S='homescript/analyzer/statement.go'
mutant('c03-if-without-else-keeps-type','C03','ifExpression',E,'''			resultType = ast.NewNullType(thenBlock.ResultSpan())''','''			resultType = thenBlock.ResultType''')
mutant('c03-if-branch-mismatch-unreported','C03','ifExpression',E,'''			err.GotDiagnostic.Notes = append(err.GotDiagnostic.Notes, "The `if` and `else` branches must result in the identical type")
			self.diagnostics = append(self.diagnostics, err.GotDiagnostic)
			if err.ExpectedDiagnostic != nil {
				self.diagnostics = append(self.diagnostics, *err.ExpectedDiagnostic)
			}
			resultType = ast.NewUnknownType()''','''			resultType = ast.NewUnknownType()''')
mutant('c03-loop-body-with-value-accepted','C03','expectLoopToReturnNull',S,'''	case ast.UnknownTypeKind, ast.NeverTypeKind, ast.NullTypeKind:
		// ignore this, this is the desired state''','''	case ast.UnknownTypeKind, ast.NeverTypeKind, ast.NullTypeKind, ast.IntTypeKind:
		// ignore this, this is the desired state''')
mutant('c03-try-catch-mismatch-unreported','C03','tryExpression',E,'''		err.GotDiagnostic.Notes = append(err.GotDiagnostic.Notes, "The `try` and `catch` branches must result in the identical type")
		self.diagnostics = append(self.diagnostics, err.GotDiagnostic)
		if err.ExpectedDiagnostic != nil {
			self.diagnostics = append(self.diagnostics, *err.ExpectedDiagnostic)
		}
		resultType = ast.NewUnknownType()''','''		resultType = ast.NewUnknownType()''')
mutant('c03-typecheck-null-vs-int','C03','TypeCheck',"homescript/analyzer/typing.go",'''	case ast.NullTypeKind:
		err, _ := self.checkTypeKindEquality(got, expected)
		return err''','''	case ast.NullTypeKind:
		return nil''')
