import sys; sys.path.insert(0,'/verif/tools')
from mutlib import mutant
CE='homescript/compiler/expression.go'
IE='homescript/interpreter/expression.go'
IR='homescript/compiler/ir.go'
C='homescript/runtime/core.go'
V='homescript/runtime/value/'
# compiler lowering
mutant('c04-lower-le-lt','C04','arithmeticHelper',CE,'''	case pAst.LessThanEqualInfixOperator:
		self.insert(newPrimitiveInstruction(Opcode_Le), span)''','''	case pAst.LessThanEqualInfixOperator:
		self.insert(newPrimitiveInstruction(Opcode_Lt), span)''')
mutant('c04-lower-neq','C04','arithmeticHelper',CE,'''		self.insert(newPrimitiveInstruction(Opcode_Eq), span)
		self.insert(newPrimitiveInstruction(Opcode_Not), span)''','''		self.insert(newPrimitiveInstruction(Opcode_Eq), span)''')
mutant('c04-lower-shifts','C04','arithmeticHelper',CE,'''	case pAst.ShiftLeftInfixOperator:
		self.insert(newPrimitiveInstruction(Opcode_Shl), span)''','''	case pAst.ShiftLeftInfixOperator:
		self.insert(newPrimitiveInstruction(Opcode_Shr), span)''')
mutant('c04-prefix-neg-not','C04','compilePrefixOp',CE,'''	case ast.MinusPrefixOperator:
		self.insert(newPrimitiveInstruction(Opcode_Neg), span)''','''	case ast.MinusPrefixOperator:
		self.insert(newPrimitiveInstruction(Opcode_Not), span)''')
mutant('c08-insert-sourcemap','C08','insert',IR,'''	self.CurrFn().SourceMap = append(self.CurrFn().SourceMap, span)
''','''	if len(self.CurrFn().SourceMap) < 4096 {
		self.CurrFn().SourceMap = append(self.CurrFn().SourceMap, span)
	}
''')
# interpreter operators
mutant('c04-interp-sub-swapped','C04','infixHelper && #assert:int-semantics',IE,'intRes = lhsInt.Inner - rhsInt.Inner','intRes = rhsInt.Inner - lhsInt.Inner')
mutant('c04-interp-ge-gt','C04','infixHelper',IE,'return value.NewValueBool(lhsInt.Inner >= rhsInt.Inner), lhsVal, nil','return value.NewValueBool(lhsInt.Inner > rhsInt.Inner), lhsVal, nil')
mutant('c04-interp-xor','C04','infixHelper && #assert:bool-semantics',IE,'boolRes = lhsBool != rhsBool','boolRes = lhsBool == rhsBool')
mutant('c02-interp-div-zero','C02','infixHelper && #div',IE,'''		case pAst.DivideInfixOperator, pAst.ModuloInfixOperator:
			if rhsInt.Inner == 0 {''','''		case pAst.DivideInfixOperator:
			if rhsInt.Inner == 0 {''')
mutant('c04-interp-float-div-zero','C04','infixHelper && #assert:float-semantics',IE,'if operator == pAst.DivideInfixOperator && rhsFloat.Inner == 0.0 {','if operator == pAst.DivideInfixOperator && rhsFloat.Inner == 0.0 && lhsFloat.Inner == 0.0 {')
# catch step of Run
mutant('c11-catch-memory','C11','Run#assert:catch-memory',C,'''					self.MemoryPointer = state.memoryPointer
''','')
mutant('c11-catch-column','C11','Run#assert:catch-object',C,'"column":   value.NewValueInt(int64(throwError.Span.Start.Column)),','"column":   value.NewValueInt(int64(throwError.Span.End.Column)),')
mutant('c11-catch-frames','C11','Run',C,'self.CallStack = self.CallStack[:state.frameIndex+1]','self.CallStack = self.CallStack[:state.frameIndex+2]')
# value library
mutant('c13-list-clone-shallow','C13','ValueList.Clone',V+'valueList.go','		newValues[idx] = (*value).Clone()','		newValues[idx] = value')
mutant('c13-object-clone-shallow','C13','ValueObject.Clone',V+'valueObject.go','		clonedFields[key] = (*value).Clone()','		clonedFields[key] = value')
mutant('c13-object-eq-missing-key','C13','ValueObject.IsEqual#post:every-key-matched',V+'valueObject.go','''		if !found {
			return false, nil
		}
		isEqual, i := (*value).IsEqual(*otherValue)''','''		if !found {
			continue
		}
		isEqual, i := (*value).IsEqual(*otherValue)''')
mutant('c12-option-allowcasts','C12','deepCastRecursive',V+'cast.go','innerCast, i := deepCastRecursive(valInner, typInner, span, allowCasts, fieldURI)','innerCast, i := deepCastRecursive(valInner, typInner, span, true, fieldURI)')
mutant('c02-index-lower-bound','C02','IndexValue',V+'index.go','''		if index < 0 || index >= length {
			return nil, NewVMFatalException(
				fmt.Sprintf("Index out of bounds: cannot index a list''','''		if index >= length {
			return nil, NewVMFatalException(
				fmt.Sprintf("Index out of bounds: cannot index a list''')
mutant('c02-index-string-wrap','C02','IndexValue',V+'index.go','''		length := int64(len(str))
		if index < 0 {
			index = index + length
		}''','''		length := int64(len(str))
		if index < 0 {
			index = index + length + 1
		}''')
# C16
VM='homescript/runtime/vm.go'
mutant('c16-wait-keeps-rlock','C16','Wait#post:locks-released',VM,'''					self.Cores.Cores = make([]Core, 0)
					self.Cores.Lock.Unlock()

					return core.Corenum, i''','''					self.Cores.Cores = make([]Core, 0)
					self.Cores.Lock.Unlock()

					self.Cores.Lock.RLock()

					return core.Corenum, i''')
mutant('c16-wait-double-unlock','C16','Wait',VM,'''		if len(self.Cores.Cores) == 0 {
			self.Cores.Lock.RUnlock()
			break
		}

		self.Cores.Lock.RUnlock()''','''		if len(self.Cores.Cores) == 0 {
			self.Cores.Lock.RUnlock()
		}

		self.Cores.Lock.RUnlock()''')
mutant('c16-wait-cores-kept','C16','Wait#post:no-cores-left',VM,'''					(*self.CancelFunc)()

					self.Cores.Cores = make([]Core, 0)
''','''					(*self.CancelFunc)()

''')
mutant('c16-args-not-inverted','C16','SpawnSync#assert:declared-order',VM,'''		invertedArgs[argCIdx-idx] = invocation.Args[idx]
	}

	coreHandle := self.spawnCoreInternal(''','''		invertedArgs[idx] = invocation.Args[idx]
	}

	coreHandle := self.spawnCoreInternal(''')
mutant('c16-args-off-by-one','C16','SpawnAsync',VM,'''	for idx := argCIdx; idx >= 0; idx-- {
		invertedArgs[argCIdx-idx] = invocation.Args[idx]
	}

	return self.spawnCoreInternal(''','''	for idx := argCIdx; idx > 0; idx-- {
		invertedArgs[argCIdx-idx] = invocation.Args[idx]
	}

	return self.spawnCoreInternal(''')
mutant('c16-termination-drops-exception','C16','HandleTermination#post:failure',VM,'''	if interrupt != nil {
		return FunctionInvocationResult{
			Exception: &VMException{
				CoreNum:   exceptionCore,
				Interrupt: *interrupt,
			},''','''	if interrupt != nil && exceptionCore != 0 {
		return FunctionInvocationResult{
			Exception: &VMException{
				CoreNum:   exceptionCore,
				Interrupt: *interrupt,
			},''')
mutant('c16-stack-seed-skips','C16','spawnCoreInternal',VM,'''	for _, elem := range addToStack {
		// TODO: However, the VM should not do this implicitly,
		// Smarter would be to insert clones manually?
		core.push(value.AsPtr(elem)) // Implement a deep copy? Or clone?
	}''','''	for idx, elem := range addToStack {
		if idx > 0 && elem == nil {
			continue
		}
		core.push(value.AsPtr(elem)) // Implement a deep copy? Or clone?
	}''')
# C09 interpreter
IU='homescript/interpreter/util.go'
mutant('c09-interp-closure-depth','C09','callFunc#post:t-depth-balanced',IU,'''		defer func() {
			self.callStackSize--
			// pop the closure scope again''','''		defer func() {
			// pop the closure scope again''')
mutant('c09-interp-limit-check','C09','callFunc#post:limit',IU,'	if self.callStackSize > self.callStackLimitSize {','	if self.callStackSize > self.callStackLimitSize+1 {')
