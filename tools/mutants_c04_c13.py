import sys; sys.path.insert(0,'/verif/tools')
from mutlib import mutant
CE='homescript/compiler/expression.go'
IE='homescript/interpreter/expression.go'
IR='homescript/compiler/ir.go'
C='homescript/runtime/core.go'
V='homescript/runtime/value/'
# compiler lowering
mutant('c04-lower-le-lt','C04','arithmeticHelper',CE,'''	case pAst.LessThanEqualInfixOperator:
		self.insert(newPrimitiveInstruction(Opcode_Le), span)''','''	case pAst.LessThanEqualInfixOperator:
		self.insert(newPrimitiveInstruction(Opcode_Lt), span)''')
mutant('c04-lower-neq','C04','arithmeticHelper',CE,'''		self.insert(newPrimitiveInstruction(Opcode_Eq), span)
		self.insert(newPrimitiveInstruction(Opcode_Not), span)''','''		self.insert(newPrimitiveInstruction(Opcode_Eq), span)''')
mutant('c04-lower-shifts','C04','arithmeticHelper',CE,'''	case pAst.ShiftLeftInfixOperator:
		self.insert(newPrimitiveInstruction(Opcode_Shl), span)''','''	case pAst.ShiftLeftInfixOperator:
		self.insert(newPrimitiveInstruction(Opcode_Shr), span)''')
mutant('c04-prefix-neg-not','C04','compilePrefixOp',CE,'''	case ast.MinusPrefixOperator:
		self.insert(newPrimitiveInstruction(Opcode_Neg), span)''','''	case ast.MinusPrefixOperator:
		self.insert(newPrimitiveInstruction(Opcode_Not), span)''')
mutant('c08-insert-sourcemap','C08','insert',IR,'''	self.CurrFn().SourceMap = append(self.CurrFn().SourceMap, span)
''','''	if len(self.CurrFn().SourceMap) < 4096 {
		self.CurrFn().SourceMap = append(self.CurrFn().SourceMap, span)
	}
''')
# interpreter operators
mutant('c04-interp-sub-swapped','C04','infixHelper && #assert:int-semantics',IE,'intRes = lhsInt.Inner - rhsInt.Inner','intRes = rhsInt.Inner - lhsInt.Inner')
mutant('c04-interp-ge-gt','C04','infixHelper',IE,'return value.NewValueBool(lhsInt.Inner >= rhsInt.Inner), lhsVal, nil','return value.NewValueBool(lhsInt.Inner > rhsInt.Inner), lhsVal, nil')
mutant('c04-interp-xor','C04','infixHelper && #assert:bool-semantics',IE,'boolRes = lhsBool != rhsBool','boolRes = lhsBool == rhsBool')
mutant('c02-interp-div-zero','C02','infixHelper && #div',IE,'''		case pAst.DivideInfixOperator, pAst.ModuloInfixOperator:
			if rhsInt.Inner == 0 {''','''		case pAst.DivideInfixOperator:
			if rhsInt.Inner == 0 {''')
mutant('c04-interp-float-div-zero','C04','infixHelper && #assert:float-semantics',IE,'if operator == pAst.DivideInfixOperator && rhsFloat.Inner == 0.0 {','if operator == pAst.DivideInfixOperator && rhsFloat.Inner == 0.0 && lhsFloat.Inner == 0.0 {')
# catch step of Run
mutant('c11-catch-memory','C11','Run#assert:catch-memory',C,'''					self.MemoryPointer = state.memoryPointer
''','')
mutant('c11-catch-column','C11','Run#assert:catch-object',C,'"column":   value.NewValueInt(int64(throwError.Span.Start.Column)),','"column":   value.NewValueInt(int64(throwError.Span.End.Column)),')
mutant('c11-catch-frames','C11','Run',C,'self.CallStack = self.CallStack[:state.frameIndex+1]','self.CallStack = self.CallStack[:state.frameIndex+2]')
# value library
mutant('c13-list-clone-shallow','C13','ValueList.Clone',V+'valueList.go','		newValues[idx] = (*value).Clone()','		newValues[idx] = value')
mutant('c13-object-clone-shallow','C13','ValueObject.Clone',V+'valueObject.go','		clonedFields[key] = (*value).Clone()','		clonedFields[key] = value')
mutant('c13-object-eq-missing-key','C13','ValueObject.IsEqual#post:every-key-matched',V+'valueObject.go','''		if !found {
			return false, nil
		}
		isEqual, i := (*value).IsEqual(*otherValue)''','''		if !found {
			continue
		}
		isEqual, i := (*value).IsEqual(*otherValue)''')
mutant('c12-option-allowcasts','C12','deepCastRecursive',V+'cast.go','innerCast, i := deepCastRecursive(valInner, typInner, span, allowCasts, fieldURI)','innerCast, i := deepCastRecursive(valInner, typInner, span, true, fieldURI)')
mutant('c02-index-lower-bound','C02','IndexValue',V+'index.go','''		if index < 0 || index >= length {
			return nil, NewVMFatalException(
				fmt.Sprintf("Index out of bounds: cannot index a list''','''		if index >= length {
			return nil, NewVMFatalException(
				fmt.Sprintf("Index out of bounds: cannot index a list''')
mutant('c02-index-string-wrap','C02','IndexValue',V+'index.go','''		length := int64(len(str))
		if index < 0 {
			index = index + length
		}''','''		length := int64(len(str))
		if index < 0 {
			index = index + length + 1
		}''')
# C16
VM='homescript/runtime/vm.go'
mutant('c16-wait-keeps-rlock','C16','Wait#post:locks-released',VM,'''					self.Cores.Cores = make([]Core, 0)
					self.Cores.Lock.Unlock()

					return core.Corenum, i''','''					self.Cores.Cores = make([]Core, 0)
					self.Cores.Lock.Unlock()

					self.Cores.Lock.RLock()

					return core.Corenum, i''')
mutant('c16-wait-double-unlock','C16','Wait',VM,'''		if len(self.Cores.Cores) == 0 {
			self.Cores.Lock.RUnlock()
			break
		}

		self.Cores.Lock.RUnlock()''','''		if len(self.Cores.Cores) == 0 {
			self.Cores.Lock.RUnlock()
		}

		self.Cores.Lock.RUnlock()''')
mutant('c16-wait-cores-kept','C16','Wait#post:no-cores-left',VM,'''					(*self.CancelFunc)()

					self.Cores.Cores = make([]Core, 0)
''','''					(*self.CancelFunc)()

''')
mutant('c16-args-not-inverted','C16','SpawnSync#assert:declared-order',VM,'''		invertedArgs[argCIdx-idx] = invocation.Args[idx]
	}

	coreHandle := self.spawnCoreInternal(''','''		invertedArgs[idx] = invocation.Args[idx]
	}

	coreHandle := self.spawnCoreInternal(''')
mutant('c16-args-off-by-one','C16','SpawnAsync',VM,'''	for idx := argCIdx; idx >= 0; idx-- {
		invertedArgs[argCIdx-idx] = invocation.Args[idx]
	}

	return self.spawnCoreInternal(''','''	for idx := argCIdx; idx > 0; idx-- {
		invertedArgs[argCIdx-idx] = invocation.Args[idx]
	}

	return self.spawnCoreInternal(''')
mutant('c16-termination-drops-exception','C16','HandleTermination#post:failure',VM,'''	if interrupt != nil {
		return FunctionInvocationResult{
			Exception: &VMException{
				CoreNum:   exceptionCore,
				Interrupt: *interrupt,
			},''','''	if interrupt != nil && exceptionCore != 0 {
		return FunctionInvocationResult{
			Exception: &VMException{
				CoreNum:   exceptionCore,
				Interrupt: *interrupt,
			},''')
mutant('c16-stack-seed-skips','C16','spawnCoreInternal',VM,'''	for _, elem := range addToStack {
		// TODO: However, the VM should not do this implicitly,
		// Smarter would be to insert clones manually?
		core.push(value.AsPtr(elem)) // Implement a deep copy? Or clone?
	}''','''	for idx, elem := range addToStack {
		if idx > 0 && elem == nil {
			continue
		}
		core.push(value.AsPtr(elem)) // Implement a deep copy? Or clone?
	}''')
# C09 interpreter
IU='homescript/interpreter/util.go'
mutant('c09-interp-closure-depth','C09','callFunc#post:t-depth-balanced',IU,'''		defer func() {
			self.callStackSize--
			// pop the closure scope again''','''		defer func() {
			// pop the closure scope again''')
mutant('c09-interp-limit-check','C09','callFunc#post:limit',IU,'	if self.callStackSize > self.callStackLimitSize {','	if self.callStackSize > self.callStackLimitSize+1 {')
# C03
AE='homescript/analyzer/expression.go'
AS='homescript/analyzer/statement.go'
AT='homescript/analyzer/typing.go'
mutant('c03-float-modulo-admitted','C03','infixExpression',AE,'''		case pAst.PlusInfixOperator, pAst.MinusInfixOperator,
			pAst.MultiplyInfixOperator, pAst.DivideInfixOperator,
			pAst.PowerInfixOperator:

			// this yields a value of type `num`''','''		case pAst.PlusInfixOperator, pAst.MinusInfixOperator,
			pAst.MultiplyInfixOperator, pAst.DivideInfixOperator,
			pAst.PowerInfixOperator, pAst.ModuloInfixOperator:

			// this yields a value of type `num`''')
mutant('c03-string-compare-result','C03','infixExpression#post:result-type',AE,'''		case pAst.PlusInfixOperator:
			// this yields a value of type `str`
			resultType = ast.NewStringType(node.Range)
		case pAst.EqualInfixOperator, pAst.NotEqualInfixOperator:
			// this yields a value of type `bool`
			resultType = ast.NewBoolType(node.Range)''','''		case pAst.PlusInfixOperator:
			// this yields a value of type `str`
			resultType = ast.NewStringType(node.Range)
		case pAst.EqualInfixOperator, pAst.NotEqualInfixOperator:
			// this yields a value of type `bool`
			resultType = ast.NewStringType(node.Range)''')
mutant('c03-bool-shift-rejected-silently','C03','infixExpression',AE,'''			// this yields a value of type `bool`
			resultType = ast.NewBoolType(node.Range)
		default:
			self.error(
				fmt.Sprintf("Infix operator '%s' cannot be used on values of type '%s'", node.Operator, lhs.Type().Kind()),
				nil,
				node.Span(),
			)
		}
	case ast.StringTypeKind:''','''			// this yields a value of type `bool`
			resultType = ast.NewBoolType(node.Range)
		default:
		}
	case ast.StringTypeKind:''')
mutant('c03-prefix-minus-bool','C03','prefixExpression',AE,'''		case ast.IntTypeKind, ast.FloatTypeKind:
		case ast.NeverTypeKind, ast.UnknownTypeKind:''','''		case ast.IntTypeKind, ast.FloatTypeKind, ast.BoolTypeKind:
		case ast.NeverTypeKind, ast.UnknownTypeKind:''')
mutant('c03-break-depth','C03','breakStatement',AS,'''	// check that this statement is only called inside of a loop
	if self.currentModule.LoopDepth == 0 {''','''	// check that this statement is only called inside of a loop
	if self.currentModule.LoopDepth < 0 {''')
mutant('c03-while-depth-leak','C03','whileStatement#post:loop-depth-restored',AS,'''	body := self.block(node.Body, true)

	self.currentModule.LoopDepth--

	neverTerminates := !self.currentModule.CurrentLoopIsTerminated
	// restore loop termination''','''	body := self.block(node.Body, true)

	neverTerminates := !self.currentModule.CurrentLoopIsTerminated
	// restore loop termination''')
mutant('c03-while-cond-unchecked','C03','whileStatement#post:condition-must-be-bool',AS,'''	}); err != nil {
		self.diagnostics = append(self.diagnostics, err.GotDiagnostic)
	}

	// validate that the block returns `null`
	oldLoopIsTerminated := self.currentModule.CurrentLoopIsTerminated
	self.currentModule.LoopDepth++

	body := self.block(node.Body, true)

	self.currentModule.LoopDepth--

	neverTerminates := !self.currentModule.CurrentLoopIsTerminated
	// restore loop termination''','''	}); err != nil {
		_ = err
	}

	// validate that the block returns `null`
	oldLoopIsTerminated := self.currentModule.CurrentLoopIsTerminated
	self.currentModule.LoopDepth++

	body := self.block(node.Body, true)

	self.currentModule.LoopDepth--

	neverTerminates := !self.currentModule.CurrentLoopIsTerminated
	// restore loop termination''')
mutant('c03-kind-equality-inverted','C03','checkTypeKindEquality',AT,'	if expected.Kind() != got.Kind() {\n		return newCompatibilityErr(','	if expected.Kind() == got.Kind() {\n		return newCompatibilityErr(')
# C18
mutant('c18-analyzer-extra-member','C18','StringType.Fields#post:offers-only-table-members','homescript/analyzer/ast/types.go','''		"len": NewFunctionType(
			NewNormalFunctionTypeParamKind(make([]FunctionTypeParam, 0)),
			fieldSpan,
			NewIntType(fieldSpan),
			fieldSpan,
		),
		"replace": NewFunctionType(''','''		"len": NewFunctionType(
			NewNormalFunctionTypeParamKind(make([]FunctionTypeParam, 0)),
			fieldSpan,
			NewIntType(fieldSpan),
			fieldSpan,
		),
		"is_empty": NewFunctionType(
			NewNormalFunctionTypeParamKind(make([]FunctionTypeParam, 0)),
			fieldSpan,
			NewBoolType(fieldSpan),
			fieldSpan,
		),
		"replace": NewFunctionType(''')
mutant('c18-runtime-member-renamed','C18','ValueOption.Fields#post:has-every-offered-member',V+'valueOption.go','"unwrap_or":','"unwrap_or_else":')
mutant('c18-remove-no-wrap','C18','ValueList.Fields["remove"]',V+'valueList.go','''			length := len(*self.Values)
			if index < 0 {
				index = index + length
			}
			if index < 0 || index >= length {''','''			length := len(*self.Values)
			if index < 0 || index >= length {''')
mutant('c18-insert-off-by-one','C18','ValueList.Fields["insert"]',V+'valueList.go','			*self.Values = append((*self.Values)[:index+1], (*self.Values)[index:]...)\n			(*self.Values)[index] = &args[1]','			*self.Values = append((*self.Values)[:index+1], (*self.Values)[index:]...)\n			(*self.Values)[index+1] = &args[1]')
mutant('c18-interp-pop-empty','C18','ValueList.Fields["pop"]','homescript/interpreter/value/valueList.go','''			length := len(*self.Values)
			// if the list is already empty, do not pop any values
			if length == 0 {
				return NewNoneOption(), nil
			}

			// remove the last slice element''','''			length := len(*self.Values)

			// remove the last slice element''')
mutant('c18-len-returns-float','C18','ValueString.Fields["len"]#post:typed-result',V+'valueString.go','''		"len": NewValueBuiltinFunction(func(executor Executor, cancelCtx *context.Context, span errors.Span, args ...Value) (*Value, *VmInterrupt) {
			return NewValueInt(int64(utf8.RuneCountInString(self.Inner))), nil''','''		"len": NewValueBuiltinFunction(func(executor Executor, cancelCtx *context.Context, span errors.Span, args ...Value) (*Value, *VmInterrupt) {
			return NewValueFloat(float64(utf8.RuneCountInString(self.Inner))), nil''')
# C19
O='homescript/optimizer/optimizer.go'
mutant('c19-drops-diverging-statement','C19','Optimizer.block',O,'''		if warnedUnreachable {
			continue
		}

		statements = append(statements, newStatement)''','''		if warnedUnreachable || unreachableSpan != nil {
			continue
		}

		statements = append(statements, newStatement)''')
mutant('c19-drops-on-null-type','C19','Optimizer.block',O,'if unreachableSpan == nil && newStatement.Type().Kind() == ast.NeverTypeKind {','if unreachableSpan == nil && (newStatement.Type().Kind() == ast.NeverTypeKind || newStatement.Type().Kind() == ast.NullTypeKind) {')
mutant('c19-loses-trailing-expression','C19','Optimizer.block#post:trailing-expression-kept',O,'''	if node.Expression != nil {
		trailingExpr = o.optExpression(node.Expression)
''','''	if node.Expression != nil && unreachableSpan == nil {
		trailingExpr = o.optExpression(node.Expression)
''')
mutant('c19-params-shifted','C19','optimizeFn#post:parameters-kept',O,'		newParams.List[idx] = param','		newParams.List[len(node.Parameters.List)-1-idx] = param')
mutant('c19-functions-skipped','C19','analyzeModule',O,'''		newFn := o.optimizeFn(fn)
		functionsOut = append(functionsOut, newFn)''','''		newFn := o.optimizeFn(fn)
		if len(fn.Body.Statements) > 0 || fn.Body.Expression != nil {
			functionsOut = append(functionsOut, newFn)
		}''')
# C14 / C15 / compiler scopes
CU='homescript/compiler/util.go'
CS='homescript/compiler/statement.go'
mutant('c14-resolve-any-module','C14','getMangledFn',CU,'''	return "", false
}

func (self Compiler) getMangled(''','''	for _, module := range self.modules {
		if fn, found := module[input]; found {
			return fn.MangledName, true
		}
	}

	return "", false
}

func (self Compiler) getMangled(''')
mutant('c15-import-wrong-module','C15','getMangledFn',CU,'if fn, found := self.modules[item.FromModule.Ident()][input]; found {','if fn, found := self.modules[self.entryPointModule][input]; found {')
mutant('c15-getmangled-outermost','C15','getMangled',CU,'	for i := len(self.varScopes) - 1; i >= 0; i-- {\n		scope := self.varScopes[i]','	for i := 0; i < len(self.varScopes); i++ {\n		scope := self.varScopes[i]')
mutant('c01-while-no-scope','C01','compileStmt',CS,'''		defer self.popLoop()

		self.compileBlock(node.Body, true)
		self.insert(newOneStringInstruction(Opcode_Jump, head_label), node.Range)
''','''		defer self.popLoop()

		self.compileBlock(node.Body, false)
		self.insert(newOneStringInstruction(Opcode_Jump, head_label), node.Range)
''')
mutant('c01-for-scope-leak','C01','compileStmt',CS,'''		// Create initial state of iterator
		self.pushScope()
		defer self.popScope()
''','''		// Create initial state of iterator
		self.pushScope()
''')
mutant('c01-mangle-into-outer-scope','C01','mangleVar',CU,'	(*self.currScope)[input] = mangled\n','	self.varScopes[0][input] = mangled\n')
mutant('c11-loop-stack-leak','C11','compileStmt',CS,'''			labelContinue: head_label,
		})
		defer self.popLoop()

		self.compileBlock(node.Body, true)
		self.insert(newOneStringInstruction(Opcode_Jump, head_label), node.Span())''','''			labelContinue: head_label,
		})

		self.compileBlock(node.Body, true)
		self.insert(newOneStringInstruction(Opcode_Jump, head_label), node.Span())''')
# C20
FI='homescript/fuzzer/infixExpression.go'
FE='homescript/fuzzer/expression.go'
mutant('c20-reversed-le','C20','infixExpr#assert:comparison-table',FI,'			pAst.LessThanEqualInfixOperator:    pAst.GreaterThanEqualInfixOperator,','			pAst.LessThanEqualInfixOperator:    pAst.GreaterThanInfixOperator,')
mutant('c20-flip-same-op','C20','infixExpr#assert:plus-minus-table',FI,'''		if node.Operator == pAst.PlusInfixOperator {
			topLevelOp = pAst.MinusInfixOperator
		} else {''','''		if node.Operator == pAst.PlusInfixOperator {
			topLevelOp = pAst.PlusInfixOperator
		} else {''')
mutant('c20-equality-inner','C20','infixExpr#assert:equality-table',FI,'''		if node.Operator == pAst.EqualInfixOperator {
			innerOp = pAst.NotEqualInfixOperator
		} else {''','''		if node.Operator == pAst.EqualInfixOperator {
			innerOp = pAst.EqualInfixOperator
		} else {''')
mutant('c20-literal-inverse','C20','expressionVariants#assert:literal-inverse-table',FE,'		inverseOperators := []pAst.InfixOperator{pAst.MinusInfixOperator, pAst.PlusInfixOperator, pAst.DivideInfixOperator}\n\n		randomValues := []int64{42, 69, 4711}','		inverseOperators := []pAst.InfixOperator{pAst.MinusInfixOperator, pAst.PlusInfixOperator, pAst.MultiplyInfixOperator}\n\n		randomValues := []int64{42, 69, 4711}')
mutant('c20-literal-zero','C20','expressionVariants#assert:literal-inverse-table',FE,'		randomValues := []int64{42, 69, 4711}','		randomValues := []int64{42, 0, 4711}')
